// Seams shared by the harness binaries that link the real kiki (`ambient`, `streamgen`);
// textually included (`include!`) so that the interposed symbols are defined in the binary itself,
// which is what makes std's statically linked references bind to them.
//
//   * std's per-thread hash keys  -> `getrandom`   (std references it as a weak symbol)
//   * wall / monotonic clock      -> `clock_gettime`
//   * environment variable reads  -> `getenv`
//
// Everything is inert unless the simulator sets the thread-local cells: a thread without injected
// keys gets deterministic fallback keys (counted as "unplanned"), the clock stands still at a fixed
// epoch, and `getenv` answers from the real environment.

use std::cell::Cell;
use std::sync::atomic::{AtomicI64, AtomicU64, Ordering};

thread_local! {
    static TL_KEYS: Cell<Option<(u64, u64)>> = const { Cell::new(None) };
    static TL_IN_GENERATE: Cell<bool> = const { Cell::new(false) };
    /// 0 = real environment; otherwise every variable read inside `generate` gets a value that is
    /// a pure function of (salt, name) — so an environment dependence is found without guessing names
    static TL_ENV_SALT: Cell<u64> = const { Cell::new(0) };
    /// 0 = the real CPU affinity mask; otherwise `sched_getaffinity` inside `generate` reports
    /// this many CPUs (what `std::thread::available_parallelism` is computed from)
    static TL_SIM_CPUS: Cell<u32> = const { Cell::new(0) };
    /// simulated state of the process's stdout/stderr inside a call: 0 = writes succeed (and go
    /// nowhere), otherwise the errno every write to fd 1 or 2 fails with
    static TL_STDIO_ERRNO: Cell<i32> = const { Cell::new(0) };
}

static GETRANDOM_CALLS: AtomicU64 = AtomicU64::new(0);
static GETRANDOM_UNPLANNED: AtomicU64 = AtomicU64::new(0);
static GETRANDOM_IN_GENERATE: AtomicU64 = AtomicU64::new(0);
static CLOCK_READS: AtomicU64 = AtomicU64::new(0);
static CLOCK_READS_IN_GENERATE: AtomicU64 = AtomicU64::new(0);
static GETENV_IN_GENERATE: AtomicU64 = AtomicU64::new(0);
const EPOCH_REAL_NS: i64 = 1_700_000_000 * 1_000_000_000;
const EPOCH_MONO_NS: u64 = 1_000 * 1_000_000_000;
static SIM_REAL_NS: AtomicI64 = AtomicI64::new(EPOCH_REAL_NS);
static SIM_MONO_NS: AtomicU64 = AtomicU64::new(EPOCH_MONO_NS);
/// both simulated clocks advance by this much after every read (0 = time stands still)
static SIM_TICK_NS: AtomicU64 = AtomicU64::new(0);

/// std obtains a thread's `RandomState` keys through this symbol.
#[no_mangle]
pub unsafe extern "C" fn getrandom(buf: *mut u8, len: usize, _flags: u32) -> isize {
    GETRANDOM_CALLS.fetch_add(1, Ordering::SeqCst);
    let in_gen = TL_IN_GENERATE.try_with(|f| f.get()).unwrap_or(false);
    if in_gen {
        GETRANDOM_IN_GENERATE.fetch_add(1, Ordering::SeqCst);
    }
    let keys = TL_KEYS.try_with(|k| k.get()).ok().flatten();
    let (k0, k1) = match keys {
        Some(k) => k,
        None => {
            let n = GETRANDOM_UNPLANNED.fetch_add(1, Ordering::SeqCst);
            (0x5EED_0000_0000_0000 ^ n, 0x0BAD_5EED)
        }
    };
    let mut bytes = [0u8; 16];
    bytes[..8].copy_from_slice(&k0.to_ne_bytes());
    bytes[8..].copy_from_slice(&k1.to_ne_bytes());
    for i in 0..len {
        *buf.add(i) = bytes[i % 16];
    }
    len as isize
}

#[repr(C)]
pub struct Timespec {
    tv_sec: i64,
    tv_nsec: i64,
}

/// std reads `SystemTime::now()` / `Instant::now()` through this symbol.
#[no_mangle]
pub unsafe extern "C" fn clock_gettime(clk: i32, ts: *mut Timespec) -> i32 {
    CLOCK_READS.fetch_add(1, Ordering::SeqCst);
    if TL_IN_GENERATE.try_with(|f| f.get()).unwrap_or(false) {
        CLOCK_READS_IN_GENERATE.fetch_add(1, Ordering::SeqCst);
    }
    let ns: i128 = match clk {
        0 | 5 | 8 | 11 => SIM_REAL_NS.load(Ordering::SeqCst) as i128,
        _ => SIM_MONO_NS.load(Ordering::SeqCst) as i128,
    };
    let tick = SIM_TICK_NS.load(Ordering::SeqCst);
    if tick != 0 {
        SIM_REAL_NS.fetch_add(tick as i64, Ordering::SeqCst);
        SIM_MONO_NS.fetch_add(tick, Ordering::SeqCst);
    }
    if !ts.is_null() {
        (*ts).tv_sec = (ns.div_euclid(1_000_000_000)) as i64;
        (*ts).tv_nsec = (ns.rem_euclid(1_000_000_000)) as i64;
    }
    0
}

extern "C" {
    fn syscall(num: i64, ...) -> i64;
    static environ: *const *const u8;
}

const SIM_ENV_VALUES: [&[u8]; 16] = [
    b"1\0", b"0\0", b"\0", b"full\0", b"42\0", b"/nonexistent\0", b"1700000000\0", b"kiki\0", b"C\0", b"true\0",
    b"1.60\0", b"1.56.1\0", b"0.1.0\0", b"2018\0", b"false\0", b"en_US.UTF-8\0",
];

/// std's `env::var` / `env::var_os` read variables through this symbol.
#[no_mangle]
pub unsafe extern "C" fn getenv(name: *const u8) -> *mut u8 {
    if name.is_null() {
        return std::ptr::null_mut();
    }
    let mut n = 0usize;
    while *name.add(n) != 0 {
        n += 1;
    }
    let key = std::slice::from_raw_parts(name, n);
    let in_gen = TL_IN_GENERATE.try_with(|f| f.get()).unwrap_or(false);
    if in_gen {
        GETENV_IN_GENERATE.fetch_add(1, Ordering::SeqCst);
        let salt = TL_ENV_SALT.try_with(|s| s.get()).unwrap_or(0);
        if salt != 0 {
            let mut h: u64 = 0xcbf2_9ce4_8422_2325 ^ salt;
            for b in key {
                h ^= *b as u64;
                h = h.wrapping_mul(0x0000_0100_0000_01B3);
            }
            h ^= h >> 29;
            if h % 4 == 0 {
                return std::ptr::null_mut();
            }
            return SIM_ENV_VALUES[((h >> 8) % SIM_ENV_VALUES.len() as u64) as usize].as_ptr() as *mut u8;
        }
    }
    // the real environment
    let mut e = environ;
    if e.is_null() {
        return std::ptr::null_mut();
    }
    while !(*e).is_null() {
        let entry = *e;
        let mut i = 0usize;
        while i < n && *entry.add(i) == key[i] {
            i += 1;
        }
        if i == n && *entry.add(n) == b'=' {
            return entry.add(n + 1) as *mut u8;
        }
        e = e.add(1);
    }
    std::ptr::null_mut()
}

static AFFINITY_READS_IN_GENERATE: AtomicU64 = AtomicU64::new(0);

/// std's `available_parallelism` reads the affinity mask through this symbol.
#[no_mangle]
pub unsafe extern "C" fn sched_getaffinity(pid: i32, cpusetsize: usize, mask: *mut u8) -> i32 {
    let in_gen = TL_IN_GENERATE.try_with(|f| f.get()).unwrap_or(false);
    if in_gen {
        AFFINITY_READS_IN_GENERATE.fetch_add(1, Ordering::SeqCst);
        let n = TL_SIM_CPUS.try_with(|c| c.get()).unwrap_or(0) as usize;
        if n != 0 && !mask.is_null() {
            for i in 0..cpusetsize {
                *mask.add(i) = 0;
            }
            for bit in 0..n.min(cpusetsize * 8) {
                *mask.add(bit / 8) |= 1u8 << (bit % 8);
            }
            return 0;
        }
    }
    let r = syscall(204, pid as i64, cpusetsize, mask);
    if r < 0 {
        return -1;
    }
    let written = r as usize;
    for i in written..cpusetsize {
        *mask.add(i) = 0;
    }
    0
}

static STDIO_WRITES_IN_GENERATE: AtomicU64 = AtomicU64::new(0);
static STDIO_WRITE_FAULTS_FIRED: AtomicU64 = AtomicU64::new(0);

extern "C" {
    fn __errno_location() -> *mut i32;
}

unsafe fn sim_stdio_write(fd: i32, len: isize) -> Option<isize> {
    if (fd == 1 || fd == 2) && TL_IN_GENERATE.try_with(|f| f.get()).unwrap_or(false) {
        STDIO_WRITES_IN_GENERATE.fetch_add(1, Ordering::SeqCst);
        let e = TL_STDIO_ERRNO.try_with(|c| c.get()).unwrap_or(0);
        if e != 0 {
            STDIO_WRITE_FAULTS_FIRED.fetch_add(1, Ordering::SeqCst);
            *__errno_location() = e;
            return Some(-1);
        }
        // the simulated stdout/stderr of a call is a sink
        return Some(len);
    }
    None
}

/// std's stdout/stderr (print!, eprintln!, dbg!, the panic hook) end in these two symbols. Inside a
/// simulated call a write to fd 1 or 2 either succeeds into a sink or fails with the errno the
/// script chose (a full disk behind a redirected stderr, a closed pipe, a hung-up terminal);
/// everything else is passed through. The pinned tree never writes during `generate`.
#[no_mangle]
pub unsafe extern "C" fn write(fd: i32, buf: *const u8, count: usize) -> isize {
    if let Some(r) = sim_stdio_write(fd, count as isize) {
        return r;
    }
    syscall(1, fd as i64, buf, count) as isize
}

#[repr(C)]
pub struct SimIovec {
    base: *const u8,
    len: usize,
}

#[no_mangle]
pub unsafe extern "C" fn writev(fd: i32, iov: *const SimIovec, iovcnt: i32) -> isize {
    let mut total = 0isize;
    for i in 0..iovcnt.max(0) as usize {
        total += (*iov.add(i)).len as isize;
    }
    if let Some(r) = sim_stdio_write(fd, total) {
        return r;
    }
    syscall(20, fd as i64, iov, iovcnt as i64) as isize
}

static THREADS_SPAWNED_IN_GENERATE: AtomicU64 = AtomicU64::new(0);

extern "C" {
    fn dlsym(handle: *mut u8, symbol: *const u8) -> *mut u8;
}

type PthreadStart = extern "C" fn(*mut u8) -> *mut u8;
type PthreadCreate = unsafe extern "C" fn(*mut usize, *const u8, PthreadStart, *mut u8) -> i32;

/// Thread creation is only OBSERVED (and passed through): the pinned tree spawns no thread inside
/// `generate`, so there is nothing to schedule; a change that does is reported by a probe, because
/// the schedule of such threads is not behind a seam.
#[no_mangle]
pub unsafe extern "C" fn pthread_create(thread: *mut usize, attr: *const u8, start: PthreadStart, arg: *mut u8) -> i32 {
    static REAL: std::sync::atomic::AtomicUsize = std::sync::atomic::AtomicUsize::new(0);
    if TL_IN_GENERATE.try_with(|f| f.get()).unwrap_or(false) {
        THREADS_SPAWNED_IN_GENERATE.fetch_add(1, Ordering::SeqCst);
    }
    let mut real = REAL.load(Ordering::SeqCst);
    if real == 0 {
        // RTLD_NEXT = -1: the next definition after this object, i.e. libc's
        real = dlsym(usize::MAX as *mut u8, b"pthread_create\0".as_ptr()) as usize;
        if real == 0 {
            return 11; // EAGAIN: should never happen; spawn() then reports an error
        }
        REAL.store(real, Ordering::SeqCst);
    }
    let f: PthreadCreate = std::mem::transmute(real);
    f(thread, attr, start, arg)
}

/// Real monotonic time, bypassing the interposed symbol. Used only for the
/// harness's own wall-clock accounting, never for a decision inside a run.
#[allow(dead_code)]
fn real_now_s() -> f64 {
    let mut ts = Timespec { tv_sec: 0, tv_nsec: 0 };
    unsafe {
        syscall(228, 1i32, &mut ts as *mut Timespec);
    }
    ts.tv_sec as f64 + ts.tv_nsec as f64 / 1e9
}
