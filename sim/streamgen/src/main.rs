//! Engine B, stage 1: workload grammars -> real `kiki::generate` -> one
//! directory per accepted grammar holding the emitted module *unmodified*
//! (`g.rs`), the generated glue (`glue.rs`), the abstract model (`model.json`),
//! the Kiki text (`src.kiki`) and a tiny `main.rs`.

use common::gen;
use common::grammar::{Analysis, Grammar};
use common::json::J;
use common::rng::Rng;
use common::streamrt::ENGINE_B;
use std::fs;
use std::panic::{catch_unwind, AssertUnwindSafe};
use std::path::Path;

// Stage 1 must itself be deterministic and replayable, whatever C14's fate is on the tree under
// test: every `generate` call runs on a fresh thread, under the canonical configuration of Engine A
// (hash keys (0,0), clock standing still at the epoch). Engine B therefore judges the parser that
// `generate` emits in the canonical configuration; that other configurations emit the same bytes is
// Engine A's business.
include!("../../seam.rs");

static GENERATE_TIMEOUTS: std::sync::atomic::AtomicUsize = std::sync::atomic::AtomicUsize::new(0);

/// `Err(payload)`: panicked; `Ok(Err(text))`: rejected (or, with text "Timeout", did not return
/// within the real-time limit: the thread is abandoned; that is C07's subject, the grammar is skipped).
fn isolated_generate(text: &str) -> std::thread::Result<Result<kiki::RustSrc, String>> {
    isolated_generate_keys(text, (0, 0))
}

fn isolated_generate_keys(text: &str, keys: (u64, u64)) -> std::thread::Result<Result<kiki::RustSrc, String>> {
    let text = text.to_string();
    let (tx, rx) = std::sync::mpsc::channel::<GenResult>();
    let tx2 = tx.clone();
    let h = std::thread::Builder::new()
        .stack_size(64 << 20)
        .spawn(move || {
            TL_KEYS.with(|k| k.set(Some(keys)));
            let r = catch_unwind(AssertUnwindSafe(|| kiki::generate(&text).map_err(|e| format!("{:?}", e))));
            let _ = tx.send(Some(r));
        })
        .expect("spawn");
    // blocking wait; a watchdog thread (REAL time, raw syscall clock) answers in the thread's place
    // if `generate` does not return within the limit
    start_generate_watchdog();
    {
        *GEN_WATCH.lock().unwrap() = Some((real_now_s(), tx2));
    }
    let r = rx.recv();
    {
        *GEN_WATCH.lock().unwrap() = None;
    }
    match r {
        Ok(Some(r)) => {
            let _ = h.join();
            r
        }
        Ok(None) => {
            GENERATE_TIMEOUTS.fetch_add(1, std::sync::atomic::Ordering::SeqCst);
            Ok(Err("Timeout".to_string()))
        }
        Err(_) => h.join().and_then(|_| Ok(Err("Disconnected".to_string()))),
    }
}

extern "C" {
    fn setrlimit(resource: i32, rlim: *const [u64; 2]) -> i32;
}

static MEMORY_RUNAWAY: std::sync::atomic::AtomicBool = std::sync::atomic::AtomicBool::new(false);

fn resident_bytes() -> u64 {
    std::fs::read_to_string("/proc/self/statm")
        .ok()
        .and_then(|s| s.split_whitespace().nth(1).and_then(|x| x.parse::<u64>().ok()))
        .map(|pages| pages * 4096)
        .unwrap_or(0)
}

type GenResult = Option<std::thread::Result<Result<kiki::RustSrc, String>>>;
static GEN_WATCH: std::sync::Mutex<Option<(f64, std::sync::mpsc::Sender<GenResult>)>> = std::sync::Mutex::new(None);
static GEN_WATCHDOG: std::sync::Once = std::sync::Once::new();

fn start_generate_watchdog() {
    GEN_WATCHDOG.call_once(|| {
        let limit: f64 =
            std::env::var("VERIF_GENERATE_TIMEOUT_S").ok().and_then(|s| s.parse().ok()).unwrap_or(5.0);
        std::thread::spawn(move || loop {
            std::thread::sleep(std::time::Duration::from_millis(200));
            // an abandoned `generate` keeps running; one that also keeps allocating would take the
            // machine down: past 3 GiB of resident memory the current call is given up at once and
            // the process winds down (the loops below stop as they do after too many timeouts)
            let runaway = resident_bytes() > (3u64 << 30);
            if runaway {
                MEMORY_RUNAWAY.store(true, std::sync::atomic::Ordering::SeqCst);
            }
            let mut w = GEN_WATCH.lock().unwrap();
            if let Some((t0, tx)) = w.as_ref() {
                if runaway || real_now_s() - *t0 > limit {
                    let _ = tx.send(None);
                    *w = None;
                }
            }
        });
    });
}

/// A long-lived generating thread: what `generate` emits for a text AFTER having generated other
/// texts on the same thread (call history). On the pinned tree that is byte-identical to the
/// canonical emission; where it is not (a cache that outlives the call), the parser emitted under
/// that history is workload for Engine B as well, and its replay carries the history.
struct HistoryThread {
    tx: std::sync::mpsc::Sender<String>,
    rx: std::sync::mpsc::Receiver<GenResult>,
    reply_tx: std::sync::mpsc::Sender<GenResult>,
    texts: Vec<String>,
}

impl HistoryThread {
    fn spawn() -> HistoryThread {
        let (tx, trx) = std::sync::mpsc::channel::<String>();
        let (rtx, rx) = std::sync::mpsc::channel::<GenResult>();
        let reply_tx = rtx.clone();
        std::thread::Builder::new()
            .stack_size(64 << 20)
            .spawn(move || {
                TL_KEYS.with(|k| k.set(Some((0, 0))));
                while let Ok(text) = trx.recv() {
                    let r = catch_unwind(AssertUnwindSafe(|| kiki::generate(&text).map_err(|e| format!("{:?}", e))));
                    if rtx.send(Some(r)).is_err() {
                        break;
                    }
                }
            })
            .expect("spawn history thread");
        HistoryThread { tx, rx, reply_tx, texts: vec![] }
    }

    /// `None`: the call did not return (the thread must be abandoned).
    fn generate(&mut self, text: &str) -> Option<std::thread::Result<Result<kiki::RustSrc, String>>> {
        start_generate_watchdog();
        {
            *GEN_WATCH.lock().unwrap() = Some((real_now_s(), self.reply_tx.clone()));
        }
        if self.tx.send(text.to_string()).is_err() {
            return None;
        }
        let r = self.rx.recv();
        {
            *GEN_WATCH.lock().unwrap() = None;
        }
        self.texts.push(text.to_string());
        match r {
            Ok(Some(r)) => Some(r),
            _ => None,
        }
    }
}

fn arg_val(args: &[String], name: &str) -> Option<String> {
    args.iter().position(|a| a == name).and_then(|i| args.get(i + 1)).cloned()
}

fn glue_src(g: &Grammar) -> String {
    let te = &g.token_enum;
    let mut mk = String::new();
    let mut ki = String::new();
    for (i, t) in g.terms.iter().enumerate() {
        mk.push_str(&format!("        {i} => g::{te}::{}(t),\n", t.name));
        ki.push_str(&format!("        g::{te}::{}(t) => ({i}, t.id),\n", t.name));
    }
    format!(
        r#"// generated by streamgen: token constructor / inspector and the call of the emitted `parse`
use crate::g;
use common::streamrt::{{Glue, Outcome, SimSource, SimStream, Tok}};

fn mk(kind: usize, t: Tok) -> g::{te} {{
    match kind {{
{mk}        _ => unreachable!("kind out of range"),
    }}
}}

fn kind_id(t: &g::{te}) -> (usize, u64) {{
    match t {{
{ki}    }}
}}

fn run_parse(stream: &mut SimStream) -> Outcome {{
    match g::parse(SimSource {{ stream, mk }}) {{
        Ok(tree) => Outcome::Ok(Box::new(tree)),
        Err(Some(t)) => {{
            let (kind, id) = kind_id(&t);
            Outcome::ErrSome {{ kind, id, tok: Box::new(t) }}
        }}
        Err(None) => Outcome::ErrNone,
    }}
}}

pub fn glue() -> Glue {{
    Glue {{
        model_json: include_str!("model.json"),
        src_kiki: include_str!("src.kiki"),
        emitted: include_str!("g.rs"),
        run_parse: std::sync::Arc::new(run_parse),
    }}
}}
"#
    )
}

const MAIN_RS: &str = r#"// generated by streamgen
#[path = "g.rs"]
mod g;
#[path = "glue.rs"]
mod glue;
pub use common::streamrt::Tok;

fn main() {
    common::streamrt::main(&glue::glue())
}
"#;

enum Fate {
    Accepted,
    Rejected(String),
    Panicked,
    Unproductive,
    NoTerminals,
}

fn emit(g: &Grammar, text: &str, dir: &Path) -> Fate {
    if g.terms.is_empty() {
        return Fate::NoTerminals;
    }
    // grammars with unproductive nonterminals are workload too (C03's side clause: the
    // reference is then the canonical LR(1) parser); only recorded here
    let _ = Analysis::new(g);
    let r = isolated_generate(text);
    match r {
        Err(_) => Fate::Panicked,
        Ok(Err(d)) => {
            let variant: String = d.chars().take_while(|c| c.is_ascii_alphanumeric()).collect();
            Fate::Rejected(variant)
        }
        Ok(Ok(src)) => {
            fs::create_dir_all(dir).expect("mkdir");
            fs::write(dir.join("g.rs"), &src.0).expect("write g.rs");
            fs::write(dir.join("glue.rs"), glue_src(g)).expect("write glue.rs");
            // number of states of the emitted automaton (reach probe only)
            let emitted_states = src
                .0
                .lines()
                .filter(|l| {
                    let t = l.trim();
                    t.starts_with('S')
                        && t.ends_with(',')
                        && t.contains(" = ")
                        && t[1..].split(' ').next().map(|d| !d.is_empty() && d.chars().all(|c| c.is_ascii_digit())).unwrap_or(false)
                })
                .count();
            fs::write(
                dir.join("model.json"),
                g.to_json().set("emitted_states", J::uz(emitted_states)).to_string(),
            )
            .expect("write model");
            fs::write(dir.join("src.kiki"), text).expect("write src.kiki");
            fs::write(dir.join("main.rs"), MAIN_RS).expect("write main.rs");
            Fate::Accepted
        }
    }
}

fn main() {
    let args: Vec<String> = std::env::args().collect();
    std::panic::set_hook(Box::new(|_| {}));
    // backstop behind the watchdog's memory guard: an allocation beyond 12 GiB of address space
    // fails (and aborts this process) instead of waking the kernel's OOM killer
    unsafe {
        let lim: [u64; 2] = [12u64 << 30, 12u64 << 30];
        setrlimit(9, &lim);
    }
    match args.get(1).map(|s| s.as_str()) {
        Some("gen") => {
            let seed: u64 = arg_val(&args, "--seed").and_then(|s| s.parse().ok()).unwrap_or(1);
            let start: u64 = arg_val(&args, "--start").and_then(|s| s.parse().ok()).unwrap_or(0);
            let want: usize = arg_val(&args, "--count").and_then(|s| s.parse().ok()).unwrap_or(8);
            let max_tries: u64 = arg_val(&args, "--max-tries").and_then(|s| s.parse().ok()).unwrap_or(4000);
            let out = arg_val(&args, "--out").expect("--out");
            let out = Path::new(&out);
            fs::create_dir_all(out).expect("mkdir out");
            let mut entries: Vec<J> = vec![];
            let mut accepted = 0usize;
            let mut k = start;
            let mut hist = HistoryThread::spawn();
            let mut history_variants = 0usize;
            while accepted < want && k - start < max_tries {
                if GENERATE_TIMEOUTS.load(std::sync::atomic::Ordering::SeqCst) >= 16 || MEMORY_RUNAWAY.load(std::sync::atomic::Ordering::SeqCst) {
                    break;
                }
                let (g, text) = if (k as usize) < gen::N_REPO_EXAMPLES {
                    let g = gen::repo_example(k as usize);
                    let t = g.render_plain();
                    (g, t)
                } else {
                    let mut rng = Rng::derive(seed, &[ENGINE_B, k, 0x6E]);
                    let g = gen::workload_grammar(&mut rng);
                    let mut lay = Rng::derive(seed, &[ENGINE_B, k, 0x1A]);
                    let t = g.render(&mut lay);
                    (g, t)
                };
                let dir = out.join(format!("g{k}"));
                let fate = emit(&g, &text, &dir);
                let (nn, nt, nr) = g.size();
                // the same text on the long-lived thread (history of at most 8 earlier texts)
                if hist.texts.len() >= 8 {
                    hist = HistoryThread::spawn();
                }
                // the same text on a fresh thread under other hash keys: if the emission differs from
                // the canonical one (C14's subject), that parser is workload too
                if let Fate::Accepted = fate {
                    let mut krng = Rng::derive(seed, &[ENGINE_B, k, 0x5EED]);
                    let keys = (krng.next_u64(), krng.next_u64());
                    if let Ok(Ok(src_s)) = isolated_generate_keys(&text, keys) {
                        let canon = fs::read_to_string(dir.join("g.rs")).unwrap_or_default();
                        if canon != src_s.0 {
                            let sdir = out.join(format!("g{k}s"));
                            fs::create_dir_all(&sdir).expect("mkdir");
                            for f in ["glue.rs", "model.json", "src.kiki", "main.rs"] {
                                fs::copy(dir.join(f), sdir.join(f)).expect("copy");
                            }
                            fs::write(sdir.join("g.rs"), &src_s.0).expect("write g.rs");
                            fs::write(
                                sdir.join("keys.json"),
                                J::Arr(vec![J::Int(keys.0 as i128), J::Int(keys.1 as i128)]).to_string(),
                            )
                            .expect("write keys");
                            history_variants += 1;
                            entries.push(
                                J::obj()
                                    .set("item", J::Int((k + 6_000_000) as i128))
                                    .set("family", J::str(&format!("{}@hash-keys", g.family)))
                                    .set("nts", J::uz(nn))
                                    .set("terms", J::uz(nt))
                                    .set("rules", J::uz(nr))
                                    .set("fate", J::str("accepted"))
                                    .set("dir", J::str(&sdir.to_string_lossy())),
                            );
                        }
                    }
                }
                if (k as usize) >= gen::N_REPO_EXAMPLES {
                    // half of the time the history contains revisions of this very grammar (the
                    // same names, one rule changed): what a cache keyed on names is wrong for
                    let mut rrng = Rng::derive(seed, &[ENGINE_B, k, 0x4E7]);
                    if rrng.chance(1, 2) {
                        let n = rrng.range(1, 2);
                        for _ in 0..n {
                            let rev = gen::revision(&g, &mut rrng);
                            if hist.generate(&rev.render_plain()).is_none() {
                                GENERATE_TIMEOUTS.fetch_add(1, std::sync::atomic::Ordering::SeqCst);
                                hist = HistoryThread::spawn();
                            }
                        }
                    }
                }
                let before = hist.texts.clone();
                match hist.generate(&text) {
                    None => {
                        GENERATE_TIMEOUTS.fetch_add(1, std::sync::atomic::Ordering::SeqCst);
                        hist = HistoryThread::spawn();
                    }
                    Some(Ok(Ok(src_h))) => {
                        if let Fate::Accepted = fate {
                            let canon = fs::read_to_string(dir.join("g.rs")).unwrap_or_default();
                            if canon != src_h.0 && !before.is_empty() {
                                // emitted under history differs from the canonical emission: the
                                // difference itself is C14's subject; the parser is C03 workload
                                let hdir = out.join(format!("g{k}h"));
                                fs::create_dir_all(&hdir).expect("mkdir");
                                for f in ["glue.rs", "model.json", "src.kiki", "main.rs"] {
                                    fs::copy(dir.join(f), hdir.join(f)).expect("copy");
                                }
                                fs::write(hdir.join("g.rs"), &src_h.0).expect("write g.rs");
                                fs::write(
                                    hdir.join("history.json"),
                                    J::Arr(before.iter().map(|t| J::str(t)).collect()).to_string(),
                                )
                                .expect("write history");
                                history_variants += 1;
                                entries.push(
                                    J::obj()
                                        .set("item", J::Int((k + 5_000_000) as i128))
                                        .set("family", J::str(&format!("{}@history", g.family)))
                                        .set("nts", J::uz(nn))
                                        .set("terms", J::uz(nt))
                                        .set("rules", J::uz(nr))
                                        .set("fate", J::str("accepted"))
                                        .set("dir", J::str(&hdir.to_string_lossy())),
                                );
                            }
                        }
                    }
                    Some(_) => {}
                }
                let mut e = J::obj()
                    .set("item", J::Int(k as i128))
                    .set("family", J::str(&g.family))
                    .set("nts", J::uz(nn))
                    .set("terms", J::uz(nt))
                    .set("rules", J::uz(nr));
                match fate {
                    Fate::Accepted => {
                        accepted += 1;
                        e.put("fate", J::str("accepted"));
                        e.put("dir", J::str(&dir.to_string_lossy()));
                    }
                    Fate::Rejected(v) => e.put("fate", J::str(&format!("rejected:{v}"))),
                    Fate::Panicked => e.put("fate", J::str("panicked")),
                    Fate::Unproductive => e.put("fate", J::str("unproductive-skipped")),
                    Fate::NoTerminals => e.put("fate", J::str("no-terminals-skipped")),
                }
                entries.push(e);
                k += 1;
            }
            let m = J::obj()
                .set("seed", J::Int(seed as i128))
                .set("start", J::Int(start as i128))
                .set("next", J::Int(k as i128))
                .set("accepted", J::uz(accepted))
                .set("history_variants", J::uz(history_variants))
                .set("entries", J::Arr(entries));
            fs::write(out.join("manifest.json"), m.to_string()).expect("write manifest");
            println!("{}", J::obj().set("accepted", J::uz(accepted)).set("next", J::Int(k as i128)).to_string());
        }
        Some("tables") => {
            // Tables-only exploration: no rustc. The emitted tables are read back from the emitted
            // text and driven by an interpreter that mirrors the emitted driver (a stub; see
            // common::tables). Findings are candidates: the orchestrator confirms each one on the
            // real compiled parser before reporting it.
            let seed: u64 = arg_val(&args, "--seed").and_then(|s| s.parse().ok()).unwrap_or(1);
            let start: u64 = arg_val(&args, "--start").and_then(|s| s.parse().ok()).unwrap_or(0);
            let count: u64 = arg_val(&args, "--count").and_then(|s| s.parse().ok()).unwrap_or(100);
            let n_ff: usize = arg_val(&args, "--faultfree").and_then(|s| s.parse().ok()).unwrap_or(300);
            let n_f: usize = arg_val(&args, "--faulty").and_then(|s| s.parse().ok()).unwrap_or(300);
            let maxlen: usize = arg_val(&args, "--maxlen").and_then(|s| s.parse().ok()).unwrap_or(48);
            let out = arg_val(&args, "--out").expect("--out");
            const TABLES_BASE: u64 = 10_000_000;
            let mut fates: std::collections::BTreeMap<String, usize> = Default::default();
            let mut counters: std::collections::BTreeMap<String, i128> = Default::default();
            let mut shapes: std::collections::BTreeMap<String, i128> = Default::default();
            let mut violations: Vec<J> = vec![];
            let (mut runs, mut distinct_ns, mut grammars, mut self_checks) = (0i128, 0i128, 0i128, 0i128);
            let mut digest = common::rng::Fnv::new();
            for k in start..start + count {
                if GENERATE_TIMEOUTS.load(std::sync::atomic::Ordering::SeqCst) >= 16 || MEMORY_RUNAWAY.load(std::sync::atomic::Ordering::SeqCst) {
                    break;
                }
                let item = TABLES_BASE + k;
                let mut rng = Rng::derive(seed, &[ENGINE_B, item, 0x6E]);
                let g = gen::workload_grammar_mix(&mut rng, 33);
                let mut lay = Rng::derive(seed, &[ENGINE_B, item, 0x1A]);
                let text = g.render(&mut lay);
                let mut fate = |f: &str| *fates.entry(f.to_string()).or_insert(0) += 1;
                if g.terms.is_empty() {
                    fate("no-terminals-skipped");
                    continue;
                }
                let src = match isolated_generate(&text) {
                    Err(_) => {
                        fate("panicked");
                        continue;
                    }
                    Ok(Err(d)) => {
                        let v: String = d.chars().take_while(|c| c.is_ascii_alphanumeric()).collect();
                        fate(&format!("rejected:{v}"));
                        continue;
                    }
                    Ok(Ok(src)) => src,
                };
                let an = Analysis::new(&g);
                let reference = match common::streamrt::Reference::new(&g, &an) {
                    Ok(r) => r,
                    Err(_) => {
                        fate("no-reference-skipped");
                        continue;
                    }
                };
                let tp = match common::tables::TableParser::from_emitted(&src.0, &g) {
                    Ok(t) => t,
                    Err(e) => {
                        fate(&format!("tables-unreadable:{e}"));
                        continue;
                    }
                };
                let sc = match common::streamrt::self_check(&g, &an, &reference, seed, item) {
                    Ok(n) => n,
                    Err(e) => {
                        eprintln!("harness error: reference self-check failed on item {item}: {e}");
                        std::process::exit(2);
                    }
                };
                fate("accepted");
                let emitted_states = tp.states();
                let glue = common::streamrt::Glue {
                    model_json: "",
                    src_kiki: "",
                    emitted: "",
                    run_parse: tp.into_parse_fn(),
                };
                let sum = common::streamrt::explore(
                    &glue,
                    &g,
                    &an,
                    &reference,
                    &common::streamrt::Explore {
                        seed,
                        item,
                        n_ff,
                        n_f,
                        from: 0,
                        maxlen,
                        emitted_states,
                        self_checks: sc,
                        max_violations: 2,
                    },
                    None,
                );
                grammars += 1;
                self_checks += sc as i128;
                runs += sum.get("runs").and_then(|x| x.as_int()).unwrap_or(0);
                distinct_ns += sum.get("distinct_nonsentence_plans").and_then(|x| x.as_int()).unwrap_or(0);
                digest.u64(item);
                digest.str(sum.get("digest").and_then(|x| x.as_str()).unwrap_or(""));
                if let Some(J::Obj(o)) = sum.get("counters") {
                    for (k, v) in o {
                        *counters.entry(k.clone()).or_insert(0) += v.as_int().unwrap_or(0);
                    }
                }
                if let Some(J::Obj(o)) = sum.get("shape") {
                    for (k, v) in o {
                        if v.as_bool() == Some(true) {
                            *shapes.entry(k.clone()).or_insert(0) += 1;
                        }
                    }
                }
                for v in sum.get("violations").and_then(|x| x.as_arr()).unwrap_or(&[]) {
                    if violations.len() < 24 {
                        violations.push(
                            v.clone()
                                .set("item", J::Int(item as i128))
                                .set("family", J::str(&g.family))
                                .set("grammar_kiki", J::str(&text))
                                .set("grammar_model", g.to_json()),
                        );
                    }
                }
            }
            let to_obj = |m: &std::collections::BTreeMap<String, i128>| {
                let mut o = J::obj();
                for (k, v) in m {
                    o.put(k, J::Int(*v));
                }
                o
            };
            let mut fj = J::obj();
            for (k, v) in &fates {
                fj.put(k, J::uz(*v));
            }
            let o = J::obj()
                .set("start", J::Int(start as i128))
                .set("count", J::Int(count as i128))
                .set("grammars", J::Int(grammars))
                .set("runs", J::Int(runs))
                .set("distinct_nonsentence_plans", J::Int(distinct_ns))
                .set("self_checks", J::Int(self_checks))
                .set("fates", fj)
                .set("counters", to_obj(&counters))
                .set("shapes", to_obj(&shapes))
                .set("digest", J::str(&format!("{:016x}", digest.0)))
                .set("violations", J::Arr(violations));
            fs::write(&out, o.to_string()).expect("write tables summary");
        }
        Some("shrink") => {
            // Grammar-level minimisation of a C03 replay file, using the table interpreter (fast,
            // in-process). The result is only a proposal: the orchestrator keeps it if the real
            // compiled parser still reproduces the same violation class on it.
            let file = arg_val(&args, "--replay").expect("--replay");
            let out = arg_val(&args, "--out").expect("--out");
            let budget: usize = arg_val(&args, "--budget").and_then(|s| s.parse().ok()).unwrap_or(300);
            let j = J::parse(&fs::read_to_string(&file).expect("read replay")).expect("json");
            let mut g = Grammar::from_json(j.get("grammar_model").expect("grammar_model")).expect("model");
            let class = j.get("violation").and_then(|x| x.as_str()).expect("violation").to_string();
            let mut sc = common::streamrt::Scenario::from_json(j.get("plan").expect("plan")).expect("scenario");
            sc.history.clear();
            let mut steps = 0usize;
            // does (grammar, scenario) still show the violation class on the table interpreter?
            let try_one = |g: &Grammar, sc: &common::streamrt::Scenario| -> Option<common::streamrt::Scenario> {
                if g.nts.is_empty() || g.terms.is_empty() {
                    return None;
                }
                let text = g.render_plain();
                let src = match isolated_generate(&text) {
                    Ok(Ok(s)) => s,
                    _ => return None,
                };
                let an = Analysis::new(g);
                let reference = common::streamrt::Reference::new(g, &an).ok()?;
                let tp = common::tables::TableParser::from_emitted(&src.0, g).ok()?;
                let glue = common::streamrt::Glue { model_json: "", src_kiki: "", emitted: "", run_parse: tp.into_parse_fn() };
                let so = common::streamrt::execute(&glue, sc);
                let mut notes = common::streamrt::Notes::default();
                match common::streamrt::check_scenario(&reference, sc, &so, &mut notes).violation {
                    Some(v) if v.class == class => {
                        let (small, _) = common::streamrt::shrink(&glue, &reference, sc, &class, 400);
                        Some(small)
                    }
                    _ => None,
                }
            };
            let initial = try_one(&g, &sc);
            if initial.is_none() {
                println!("{}", J::obj().set("shrunk", J::Bool(false)).set("reason", J::str("not reproducible on the table interpreter")).to_string());
                return;
            }
            sc = initial.unwrap();
            let remove_nt = |g: &Grammar, i: usize| -> Option<Grammar> {
                if i == g.start {
                    return None;
                }
                let refd = g.nts.iter().enumerate().any(|(k, n)| {
                    k != i && n.variants.iter().any(|v| v.fields.iter().any(|f| f.sym == common::grammar::Sym::N(i)))
                });
                if refd {
                    return None;
                }
                let mut h = g.clone();
                h.nts.remove(i);
                if h.start > i {
                    h.start -= 1;
                }
                for n in h.nts.iter_mut() {
                    for v in n.variants.iter_mut() {
                        for f in v.fields.iter_mut() {
                            if let common::grammar::Sym::N(k) = f.sym {
                                if k > i {
                                    f.sym = common::grammar::Sym::N(k - 1);
                                }
                            }
                        }
                    }
                }
                Some(h)
            };
            loop {
                let mut progressed = false;
                // 1. drop whole nonterminals that nothing references
                let mut i = 0;
                while i < g.nts.len() && steps < budget {
                    if let Some(h) = remove_nt(&g, i) {
                        steps += 1;
                        if let Some(s2) = try_one(&h, &sc) {
                            g = h;
                            sc = s2;
                            progressed = true;
                            continue;
                        }
                    }
                    i += 1;
                }
                // 2. drop variants (rules)
                for i in 0..g.nts.len() {
                    let mut v = 0;
                    while v < g.nts[i].variants.len() && g.nts[i].variants.len() > 1 && steps < budget {
                        let mut h = g.clone();
                        h.nts[i].variants.remove(v);
                        steps += 1;
                        if let Some(s2) = try_one(&h, &sc) {
                            g = h;
                            sc = s2;
                            progressed = true;
                        } else {
                            v += 1;
                        }
                    }
                }
                // 3. drop fields (symbols of a right-hand side)
                for i in 0..g.nts.len() {
                    for v in 0..g.nts[i].variants.len() {
                        let mut f = 0;
                        while f < g.nts[i].variants[v].fields.len() && steps < budget {
                            let mut h = g.clone();
                            h.nts[i].variants[v].fields.remove(f);
                            h.nts[i].variants[v].fix_shape();
                            steps += 1;
                            if let Some(s2) = try_one(&h, &sc) {
                                g = h;
                                sc = s2;
                                progressed = true;
                            } else {
                                f += 1;
                            }
                        }
                    }
                }
                // 4. cosmetic: no attributes
                if g.nts.iter().any(|n| !n.attrs.is_empty()) || !g.token_attrs.is_empty() {
                    let mut h = g.clone();
                    h.token_attrs.clear();
                    for n in h.nts.iter_mut() {
                        n.attrs.clear();
                    }
                    steps += 1;
                    if let Some(s2) = try_one(&h, &sc) {
                        g = h;
                        sc = s2;
                    }
                }
                if !progressed || steps >= budget {
                    break;
                }
            }
            // 5. drop terminals that neither a rule nor the scenario mentions (kinds are renumbered)
            {
                let mut used = vec![false; g.terms.len()];
                for n in &g.nts {
                    for v in &n.variants {
                        for f in &v.fields {
                            if let common::grammar::Sym::T(t) = f.sym {
                                used[t] = true;
                            }
                        }
                    }
                }
                let mut mark = |p: &common::streamrt::Plan| {
                    for k in p.kinds.iter().chain(p.resume.iter()) {
                        if *k < used.len() {
                            used[*k] = true;
                        }
                    }
                };
                mark(&sc.a);
                if let Some((_, p)) = &sc.reenter {
                    mark(p);
                }
                if let Some(p) = &sc.b {
                    mark(p);
                }
                if used.iter().any(|u| !*u) && used.iter().any(|u| *u) {
                    let mut map = vec![usize::MAX; used.len()];
                    let mut next = 0;
                    for (i, u) in used.iter().enumerate() {
                        if *u {
                            map[i] = next;
                            next += 1;
                        }
                    }
                    let mut h = g.clone();
                    h.terms = g.terms.iter().enumerate().filter(|(i, _)| used[*i]).map(|(_, t)| t.clone()).collect();
                    for n in h.nts.iter_mut() {
                        for v in n.variants.iter_mut() {
                            for f in v.fields.iter_mut() {
                                if let common::grammar::Sym::T(t) = f.sym {
                                    f.sym = common::grammar::Sym::T(map[t]);
                                }
                            }
                        }
                    }
                    let remap = |p: &mut common::streamrt::Plan| {
                        for k in p.kinds.iter_mut().chain(p.resume.iter_mut()) {
                            *k = map[*k];
                        }
                    };
                    let mut s2 = sc.clone();
                    remap(&mut s2.a);
                    if let Some((_, p)) = &mut s2.reenter {
                        remap(p);
                    }
                    if let Some(p) = &mut s2.b {
                        remap(p);
                    }
                    steps += 1;
                    if let Some(s3) = try_one(&h, &s2) {
                        g = h;
                        sc = s3;
                    }
                }
            }
            let mut o = j.clone();
            o.put("grammar_model", g.to_json());
            o.put("grammar_kiki", J::str(&g.render_plain()));
            o.put("plan", sc.to_json());
            o.put("grammar_shrink_steps", J::uz(steps));
            fs::write(&out, o.to_string()).expect("write shrunk replay");
            let (nn, nt, nr) = g.size();
            println!(
                "{}",
                J::obj()
                    .set("shrunk", J::Bool(true))
                    .set("steps", J::uz(steps))
                    .set("nts", J::uz(nn))
                    .set("terms", J::uz(nt))
                    .set("rules", J::uz(nr))
                    .to_string()
            );
        }
        Some("one") => {
            // rebuild a single grammar directory from a replay file
            let file = arg_val(&args, "--replay").expect("--replay");
            let out = arg_val(&args, "--out").expect("--out");
            let j = J::parse(&fs::read_to_string(&file).expect("read replay")).expect("json");
            let g = Grammar::from_json(j.get("grammar_model").expect("grammar_model")).expect("model");
            let text = j.get("grammar_kiki").and_then(|x| x.as_str()).expect("grammar_kiki").to_string();
            let history: Vec<String> = j
                .get("generation_history")
                .and_then(|x| x.as_arr())
                .unwrap_or(&[])
                .iter()
                .filter_map(|t| t.as_str().map(|s| s.to_string()))
                .collect();
            let keys: Option<(u64, u64)> = j.get("generation_keys").and_then(|x| x.as_arr()).and_then(|a| {
                if a.len() == 2 {
                    Some((a[0].as_u64()?, a[1].as_u64()?))
                } else {
                    None
                }
            });
            let fate = if let Some(keys) = keys {
                // regenerate under the recorded hash keys
                let canon_fate = emit(&g, &text, Path::new(&out));
                match (canon_fate, isolated_generate_keys(&text, keys)) {
                    (Fate::Accepted, Ok(Ok(src))) => {
                        fs::write(Path::new(&out).join("g.rs"), &src.0).expect("write g.rs");
                        Fate::Accepted
                    }
                    (f, _) => f,
                }
            } else if history.is_empty() {
                emit(&g, &text, Path::new(&out))
            } else {
                // regenerate under the recorded call history: the earlier texts first, on one thread
                let canon_fate = emit(&g, &text, Path::new(&out));
                let mut h = HistoryThread::spawn();
                for t in &history {
                    let _ = h.generate(t);
                }
                match (canon_fate, h.generate(&text)) {
                    (Fate::Accepted, Some(Ok(Ok(src)))) => {
                        fs::write(Path::new(&out).join("g.rs"), &src.0).expect("write g.rs");
                        Fate::Accepted
                    }
                    (f, _) => f,
                }
            };
            let f = match fate {
                Fate::Accepted => "accepted".to_string(),
                Fate::Rejected(v) => format!("rejected:{v}"),
                Fate::Panicked => "panicked".into(),
                Fate::Unproductive => "unproductive-skipped".into(),
                Fate::NoTerminals => "no-terminals-skipped".into(),
            };
            println!("{}", J::obj().set("fate", J::str(&f)).to_string());
        }
        Some("show") => {
            // print the rendered text of item k (debugging aid)
            let seed: u64 = arg_val(&args, "--seed").and_then(|s| s.parse().ok()).unwrap_or(1);
            let k: u64 = arg_val(&args, "--item").and_then(|s| s.parse().ok()).unwrap_or(0);
            let mut rng = Rng::derive(seed, &[ENGINE_B, k, 0x6E]);
            let g = gen::workload_grammar(&mut rng);
            let mut lay = Rng::derive(seed, &[ENGINE_B, k, 0x1A]);
            println!("{}", g.render(&mut lay));
        }
        _ => {
            eprintln!("usage: streamgen gen --seed S --start K --count M --out DIR | one --replay FILE --out DIR | show --seed S --item K");
            std::process::exit(2);
        }
    }
}
