//! Engine A — ambient-state simulator for C14.
//!
//! The real `kiki::generate` is called on simulated caller threads. Everything
//! ambient it could read is behind a seam this binary owns:
//!   * std's per-thread hash keys  -> interposed `getrandom` (std binds it as a weak symbol)
//!   * wall / monotonic clock       -> interposed `clock_gettime`
//!   * environment and cwd          -> set by the simulator while all threads are parked
//!   * which thread runs next       -> real threads, released one at a time
//!   * call history                 -> the simulator's script
//! Invariant after every call: outcome(text) == canonical(text).

use common::json::J;
use common::rng::{fnv_str, Fnv, Rng};
use common::texts;
use std::collections::{BTreeMap, BTreeSet, HashSet};
use std::panic::{catch_unwind, AssertUnwindSafe};
use std::sync::mpsc::{channel, Receiver, Sender};
use std::sync::Arc;

const ENGINE_A: u64 = 0xA;

// ------------------------------------------------------------------- seams

include!("../../seam.rs");

// ---------------------------------------------------------- simulated thread

#[derive(Clone, Debug, PartialEq, Eq)]
struct Outcome {
    class: &'static str, // "ok" | "err" | "panic"
    payload: String,
}

impl Outcome {
    fn digest(&self) -> u64 {
        let mut f = Fnv::new();
        f.str(self.class);
        f.str(&self.payload);
        f.0
    }
}

struct Reply {
    /// 0: sent by the simulated thread itself; otherwise the watchdog's answer for call `seq`
    seq: u64,
    outcome: Outcome,
    getrandom_in_generate: u64,
    clock_reads_in_generate: u64,
    getenv_in_generate: u64,
    threads_spawned: u64,
    canary: u64,
}

enum Cmd {
    Generate(Arc<str>, u64, u32, u8, u8),
    Canary,
    Exit,
}

struct SimThread {
    tx: Sender<Cmd>,
    rx: Receiver<Reply>,
    reply_tx: Sender<Reply>,
    handle: Option<std::thread::JoinHandle<()>>,
}

fn stdio_errno(fault: u8) -> i32 {
    match fault {
        0 => 0,
        1 => 28, // ENOSPC
        2 => 32, // EPIPE
        _ => 5,  // EIO
    }
}

fn canary_order() -> u64 {
    // iteration order of a std HashSet of 16 fixed integers: a direct witness
    // of the hash keys this thread is running under
    let s: HashSet<u32> = (0u32..16).map(|i| i.wrapping_mul(2654435761)).collect();
    let mut f = Fnv::new();
    for x in &s {
        f.u64(*x as u64);
    }
    f.0
}

fn run_generate(text: &str) -> Outcome {
    let r = catch_unwind(AssertUnwindSafe(|| kiki::generate(text)));
    match r {
        Ok(Ok(src)) => Outcome { class: "ok", payload: src.0 },
        Ok(Err(e)) => Outcome { class: "err", payload: format!("{:?}", e) },
        Err(_) => Outcome { class: "panic", payload: String::new() },
    }
}

impl SimThread {
    fn spawn(keys: (u64, u64)) -> SimThread {
        let (ctx, crx) = channel::<Cmd>();
        let (rtx, rrx) = channel::<Reply>();
        let reply_tx = rtx.clone();
        let handle = std::thread::Builder::new()
            .stack_size(64 << 20)
            .spawn(move || {
                TL_KEYS.with(|k| k.set(Some(keys)));
                while let Ok(cmd) = crx.recv() {
                    match cmd {
                        Cmd::Generate(text, env_salt, sim_cpus, placement, stdio_fault) => {
                            // where the caller's buffer sits is ambient state too: the same bytes are
                            // handed over at address = 16-aligned + placement (0 = canonical)
                            let mut buf: Vec<u8> = vec![0u8; text.len() + 32];
                            let base = buf.as_ptr() as usize;
                            let off = ((16 - (base % 16)) % 16) + (placement as usize % 16);
                            buf[off..off + text.len()].copy_from_slice(text.as_bytes());
                            let placed: &str = std::str::from_utf8(&buf[off..off + text.len()]).expect("utf8");
                            let g0 = GETRANDOM_IN_GENERATE.load(Ordering::SeqCst);
                            let c0 = CLOCK_READS_IN_GENERATE.load(Ordering::SeqCst);
                            let e0 = GETENV_IN_GENERATE.load(Ordering::SeqCst);
                            let s0 = THREADS_SPAWNED_IN_GENERATE.load(Ordering::SeqCst);
                            TL_ENV_SALT.with(|s| s.set(env_salt));
                            TL_SIM_CPUS.with(|c| c.set(sim_cpus));
                            TL_STDIO_ERRNO.with(|c| c.set(stdio_errno(stdio_fault)));
                            TL_IN_GENERATE.with(|f| f.set(true));
                            let outcome = run_generate(placed);
                            TL_IN_GENERATE.with(|f| f.set(false));
                            TL_ENV_SALT.with(|s| s.set(0));
                            TL_SIM_CPUS.with(|c| c.set(0));
                            TL_STDIO_ERRNO.with(|c| c.set(0));
                            let g1 = GETRANDOM_IN_GENERATE.load(Ordering::SeqCst);
                            let c1 = CLOCK_READS_IN_GENERATE.load(Ordering::SeqCst);
                            let e1 = GETENV_IN_GENERATE.load(Ordering::SeqCst);
                            let s1 = THREADS_SPAWNED_IN_GENERATE.load(Ordering::SeqCst);
                            let canary = canary_order();
                            let _ = rtx.send(Reply {
                                seq: 0,
                                outcome,
                                getrandom_in_generate: g1 - g0,
                                clock_reads_in_generate: c1 - c0,
                                getenv_in_generate: e1 - e0,
                                threads_spawned: s1 - s0,
                                canary,
                            });
                        }
                        Cmd::Canary => {
                            let canary = canary_order();
                            let _ = rtx.send(Reply {
                                seq: 0,
                                outcome: Outcome { class: "canary", payload: String::new() },
                                getrandom_in_generate: 0,
                                clock_reads_in_generate: 0,
                                getenv_in_generate: 0,
                                threads_spawned: 0,
                                canary,
                            });
                        }
                        Cmd::Exit => break,
                    }
                }
            })
            .expect("spawn simulated thread");
        SimThread { tx: ctx, rx: rrx, reply_tx, handle: Some(handle) }
    }
    /// Sends a command and blocks for the reply. A watchdog thread (REAL time through the raw
    /// syscall clock; the interposed clock is the simulated one) answers in the thread's place if
    /// the call does not return within `generate_timeout_s()`. `None`: the call did not return —
    /// the thread is abandoned (it cannot be killed) and must not be used again. The watchdog
    /// exists for the harness's own termination; it observes and never steers a run that behaves
    /// (limit 20 s against a typical millisecond).
    fn call(&self, cmd: Cmd) -> Option<Reply> {
        start_call_watchdog();
        let seq = CALL_SEQ.fetch_add(1, Ordering::SeqCst) + 1;
        {
            *CALL_WATCH.lock().unwrap() = Some((seq, real_now_s(), self.reply_tx.clone()));
        }
        self.tx.send(cmd).expect("send");
        let r = loop {
            let r = self.rx.recv().expect("simulated thread died");
            // a reply for an earlier, timed-out call may still be queued: skip it
            if r.seq == 0 || r.seq == seq {
                break r;
            }
        };
        {
            *CALL_WATCH.lock().unwrap() = None;
        }
        if r.outcome.class == "timeout" {
            None
        } else {
            Some(r)
        }
    }
    /// Drops the handle without joining (used for a thread stuck in a call).
    fn abandon(mut self) {
        self.handle.take();
    }
    fn retire(mut self) {
        let _ = self.tx.send(Cmd::Exit);
        if let Some(h) = self.handle.take() {
            let _ = h.join();
        }
    }
}

fn generate_timeout_s() -> f64 {
    std::env::var("VERIF_GENERATE_TIMEOUT_S").ok().and_then(|s| s.parse().ok()).unwrap_or(20.0)
}

static TIMEOUTS: AtomicU64 = AtomicU64::new(0);
static CALL_SEQ: AtomicU64 = AtomicU64::new(0);
static CALL_WATCH: std::sync::Mutex<Option<(u64, f64, Sender<Reply>)>> = std::sync::Mutex::new(None);
static WATCHDOG_STARTED: std::sync::Once = std::sync::Once::new();

fn start_call_watchdog() {
    WATCHDOG_STARTED.call_once(|| {
        let limit = generate_timeout_s();
        std::thread::spawn(move || loop {
            std::thread::sleep(std::time::Duration::from_millis(200));
            let mut w = CALL_WATCH.lock().unwrap();
            if let Some((seq, t0, tx)) = w.as_ref() {
                if real_now_s() - *t0 > limit {
                    let _ = tx.send(Reply {
                        seq: *seq,
                        outcome: timeout_outcome(),
                        getrandom_in_generate: 0,
                        clock_reads_in_generate: 0,
                        getenv_in_generate: 0,
                        threads_spawned: 0,
                        canary: 0,
                    });
                    *w = None;
                }
            }
        });
    });
}

// ------------------------------------------------------------------- script

const ENV_NAMES: &[&str] = &[
    "SOURCE_DATE_EPOCH", "USER", "LANG", "LC_ALL", "TZ", "RUST_BACKTRACE", "RUST_LOG", "KIKI_SEED", "KIKI_DEBUG",
    "KIKI_CACHE", "HOME", "TMPDIR", "CARGO_MANIFEST_DIR", "OUT_DIR", "NO_COLOR", "RUSTFLAGS", "RUST_LIB_BACKTRACE",
];
const ENV_VALUES: &[&str] = &["", "0", "1", "42", "full", "C", "en_US.UTF-8", "Asia/Tokyo", "/nonexistent", "1700000000", "kiki"];

#[derive(Clone, Debug, PartialEq, Eq)]
struct Step {
    /// index into `Script::incarnations`; the thread is spawned on first use
    inc: usize,
    env: Vec<(String, Option<String>)>,
    cwd: Option<String>,
    real_jump_ns: i64,
    mono_jump_ns: u64,
    /// both clocks advance by this much after every read during the call (0 = time stands still)
    clock_tick_ns: u64,
    /// non-zero: every environment variable read inside the call gets a value that is a pure
    /// function of (salt, name)
    env_salt: u64,
    /// number of CPUs `sched_getaffinity` reports inside the call (0 = the real mask;
    /// the canonical configuration reports 1)
    cpus: u32,
    /// address of the text buffer handed to generate, modulo 16 (0 = canonical)
    placement: u8,
    /// state of the process's stdout/stderr during the call: 0 = writable (canonical), 1 = every
    /// write fails with ENOSPC, 2 = EPIPE, 3 = EIO
    stdio_fault: u8,
    text: usize,
}

#[derive(Clone, Debug, PartialEq, Eq)]
struct Script {
    incarnations: Vec<(u64, u64)>,
    steps: Vec<Step>,
}

struct CallRecord {
    outcome: Outcome,
    canary: u64,
    getrandom_in_generate: u64,
    clock_reads_in_generate: u64,
    getenv_in_generate: u64,
    threads_spawned: u64,
    nth_call_on_thread: usize,
}

fn reset_ambient(base_dir: &str) {
    for n in ENV_NAMES {
        std::env::remove_var(n);
    }
    let _ = std::env::set_current_dir(base_dir);
    SIM_REAL_NS.store(EPOCH_REAL_NS, Ordering::SeqCst);
    SIM_MONO_NS.store(EPOCH_MONO_NS, Ordering::SeqCst);
    SIM_TICK_NS.store(0, Ordering::SeqCst);
}

fn timeout_outcome() -> Outcome {
    Outcome { class: "timeout", payload: String::new() }
}

fn canonical(text: &str, base_dir: &str) -> Outcome {
    reset_ambient(base_dir);
    let t = SimThread::spawn((0, 0));
    match t.call(Cmd::Generate(Arc::from(text), 0, 1, 0, 0)) {
        Some(r) => {
            t.retire();
            r.outcome
        }
        None => {
            TIMEOUTS.fetch_add(1, Ordering::SeqCst);
            t.abandon();
            timeout_outcome()
        }
    }
}

fn exec_script(script: &Script, texts: &[Arc<str>], base_dir: &str, upto: Option<usize>) -> Vec<CallRecord> {
    reset_ambient(base_dir);
    let mut threads: Vec<Option<SimThread>> = (0..script.incarnations.len()).map(|_| None).collect();
    let mut calls: Vec<usize> = vec![0; script.incarnations.len()];
    let mut out = vec![];
    for (i, st) in script.steps.iter().enumerate() {
        if let Some(u) = upto {
            if i > u {
                break;
            }
        }
        // all simulated threads are parked here: ambient state may be changed
        for (k, v) in &st.env {
            match v {
                Some(v) => std::env::set_var(k, v),
                None => std::env::remove_var(k),
            }
        }
        if let Some(d) = &st.cwd {
            let _ = std::env::set_current_dir(d);
        }
        SIM_REAL_NS.fetch_add(st.real_jump_ns, Ordering::SeqCst);
        SIM_MONO_NS.fetch_add(st.mono_jump_ns, Ordering::SeqCst);
        if threads[st.inc].is_none() {
            threads[st.inc] = Some(SimThread::spawn(script.incarnations[st.inc]));
        }
        SIM_TICK_NS.store(st.clock_tick_ns, Ordering::SeqCst);
        let r = threads[st.inc].as_ref().unwrap().call(Cmd::Generate(texts[st.text].clone(), st.env_salt, st.cpus, st.placement, st.stdio_fault));
        SIM_TICK_NS.store(0, Ordering::SeqCst);
        calls[st.inc] += 1;
        let r = match r {
            Some(r) => r,
            None => {
                // the call did not return: abandon the thread and the rest of this script
                TIMEOUTS.fetch_add(1, Ordering::SeqCst);
                if let Some(t) = threads[st.inc].take() {
                    t.abandon();
                }
                out.push(CallRecord {
                    outcome: timeout_outcome(),
                    canary: 0,
                    getrandom_in_generate: 0,
                    clock_reads_in_generate: 0,
                    getenv_in_generate: 0,
                    threads_spawned: 0,
                    nth_call_on_thread: calls[st.inc],
                });
                break;
            }
        };
        out.push(CallRecord {
            outcome: r.outcome,
            canary: r.canary,
            getrandom_in_generate: r.getrandom_in_generate,
            clock_reads_in_generate: r.clock_reads_in_generate,
            getenv_in_generate: r.getenv_in_generate,
            threads_spawned: r.threads_spawned,
            nth_call_on_thread: calls[st.inc],
        });
    }
    for t in threads.into_iter().flatten() {
        t.retire();
    }
    out
}

fn draw_script(rng: &mut Rng, n_texts: usize, base_dir: &str) -> (Script, J) {
    // dimensions added later draw from a side stream, so that the scripts of earlier versions of
    // the check stay what they were
    let mut side = common::gen::side_stream(rng, 0x57d10);
    let n_threads = rng.range(1, 4);
    let len = rng.range(1, 12);
    let key_policy = rng.weighted(&[8, 2, 2, 1, 1]);
    let reuse_pct = *rng.pick(&[0usize, 30, 60, 90]);
    let clock_on = rng.chance(1, 2);
    let env_on = rng.chance(1, 2);
    let base = (rng.next_u64(), rng.next_u64());
    let draw_keys = |rng: &mut Rng| -> (u64, u64) {
        match key_policy {
            0 => (rng.next_u64(), rng.next_u64()),
            1 => base,
            2 => {
                let b = rng.below(128);
                if b < 64 {
                    (base.0 ^ (1u64 << b), base.1)
                } else {
                    (base.0, base.1 ^ (1u64 << (b - 64)))
                }
            }
            3 => (0, 0),
            _ => (rng.below(64) as u64, 0),
        }
    };
    let mut script = Script { incarnations: vec![], steps: vec![] };
    // slot -> current incarnation
    let mut slots: Vec<Option<usize>> = vec![None; n_threads];
    for _ in 0..len {
        let slot = rng.below(n_threads);
        let reuse = slots[slot].is_some() && rng.chance(reuse_pct, 100);
        if !reuse {
            let k = draw_keys(rng);
            script.incarnations.push(k);
            slots[slot] = Some(script.incarnations.len() - 1);
        }
        let mut env = vec![];
        let mut cwd = None;
        if env_on {
            let n = rng.weighted(&[4, 3, 2, 1]);
            for _ in 0..n {
                let name = (*rng.pick(ENV_NAMES)).to_string();
                let val = if rng.chance(1, 5) { None } else { Some((*rng.pick(ENV_VALUES)).to_string()) };
                env.push((name, val));
            }
            if rng.chance(1, 4) {
                cwd = Some(if rng.chance(1, 2) { "/".to_string() } else { base_dir.to_string() });
            }
        }
        let (mut rj, mut mj) = (0i64, 0u64);
        let env_salt = if env_on && rng.chance(1, 3) { rng.next_u64() | 1 } else { 0 };
        let clock_tick_ns = if clock_on && rng.chance(1, 3) {
            *rng.pick(&[1u64, 1_000, 999_999_937, 1_000_000_000, 86_400_000_000_000])
        } else {
            0
        };
        if clock_on && rng.chance(2, 3) {
            let mag = *rng.pick(&[1_000u64, 1_000_000, 1_000_000_000, 3_600_000_000_000, 86_400_000_000_000, 31_557_600_000_000_000, 315_576_000_000_000_000]);
            mj = rng.next_u64() % mag;
            let r = (rng.next_u64() % mag) as i64;
            rj = if rng.chance(1, 3) { -r } else { r };
        }
        script.steps.push(Step {
            inc: slots[slot].unwrap(),
            env,
            cwd,
            real_jump_ns: rj,
            mono_jump_ns: mj,
            clock_tick_ns,
            env_salt,
            cpus: if rng.chance(1, 2) { rng.range(1, 64) as u32 } else { *rng.pick(&[1u32, 1, 2, 3, 8, 64, 128, 0]) },
            placement: if rng.chance(1, 2) { rng.below(16) as u8 } else { 0 },
            stdio_fault: if side.chance(1, 3) { 1 + side.below(3) as u8 } else { 0 },
            text: rng.below(n_texts),
        });
    }
    let cfg = J::obj()
        .set("threads", J::uz(n_threads))
        .set("steps", J::uz(len))
        .set("key_policy", J::str(["fresh", "shared", "near", "zero", "small"][key_policy]))
        .set("reuse_pct", J::uz(reuse_pct))
        .set("clock_jumps", J::Bool(clock_on))
        .set("ambient_mutations", J::Bool(env_on));
    (script, cfg)
}

// ----------------------------------------------------------------- JSON i/o

fn script_to_json(s: &Script) -> J {
    J::obj()
        .set(
            "incarnations",
            J::Arr(
                s.incarnations
                    .iter()
                    .map(|(a, b)| J::Arr(vec![J::Int(*a as i128), J::Int(*b as i128)]))
                    .collect(),
            ),
        )
        .set(
            "steps",
            J::Arr(
                s.steps
                    .iter()
                    .map(|st| {
                        J::obj()
                            .set("thread", J::uz(st.inc))
                            .set(
                                "env",
                                J::Arr(
                                    st.env
                                        .iter()
                                        .map(|(k, v)| {
                                            J::Arr(vec![
                                                J::str(k),
                                                v.as_ref().map(|v| J::str(v)).unwrap_or(J::Null),
                                            ])
                                        })
                                        .collect(),
                                ),
                            )
                            .set("cwd", st.cwd.as_ref().map(|c| J::str(c)).unwrap_or(J::Null))
                            .set("real_jump_ns", J::Int(st.real_jump_ns as i128))
                            .set("mono_jump_ns", J::Int(st.mono_jump_ns as i128))
                            .set("clock_tick_ns", J::Int(st.clock_tick_ns as i128))
                            .set("env_salt", J::Int(st.env_salt as i128))
                            .set("cpus", J::Int(st.cpus as i128))
                            .set("placement", J::Int(st.placement as i128))
                            .set("stdio_fault", J::Int(st.stdio_fault as i128))
                            .set("text", J::uz(st.text))
                    })
                    .collect(),
            ),
        )
}

fn script_from_json(j: &J) -> Result<Script, String> {
    let mut s = Script { incarnations: vec![], steps: vec![] };
    for k in j.get("incarnations").and_then(|x| x.as_arr()).ok_or("incarnations")? {
        let a = k.as_arr().ok_or("keys")?;
        s.incarnations.push((a[0].as_u64().ok_or("k0")?, a[1].as_u64().ok_or("k1")?));
    }
    for st in j.get("steps").and_then(|x| x.as_arr()).ok_or("steps")? {
        let mut env = vec![];
        for e in st.get("env").and_then(|x| x.as_arr()).unwrap_or(&[]) {
            let a = e.as_arr().ok_or("env entry")?;
            env.push((a[0].as_str().ok_or("env name")?.to_string(), a[1].as_str().map(|s| s.to_string())));
        }
        s.steps.push(Step {
            inc: st.get("thread").and_then(|x| x.as_usize()).ok_or("thread")?,
            env,
            cwd: st.get("cwd").and_then(|x| x.as_str()).map(|s| s.to_string()),
            real_jump_ns: st.get("real_jump_ns").and_then(|x| x.as_int()).unwrap_or(0) as i64,
            mono_jump_ns: st.get("mono_jump_ns").and_then(|x| x.as_int()).unwrap_or(0) as u64,
            clock_tick_ns: st.get("clock_tick_ns").and_then(|x| x.as_int()).unwrap_or(0) as u64,
            env_salt: st.get("env_salt").and_then(|x| x.as_int()).unwrap_or(0) as u64,
            cpus: st.get("cpus").and_then(|x| x.as_int()).unwrap_or(1) as u32,
            placement: st.get("placement").and_then(|x| x.as_int()).unwrap_or(0) as u8,
            stdio_fault: st.get("stdio_fault").and_then(|x| x.as_int()).unwrap_or(0) as u8,
            text: st.get("text").and_then(|x| x.as_usize()).ok_or("text")?,
        });
    }
    Ok(s)
}

fn clip(s: &str, n: usize) -> String {
    if s.len() <= n {
        return s.to_string();
    }
    let mut e = n;
    while !s.is_char_boundary(e) {
        e -= 1;
    }
    format!("{}… [{} bytes total]", &s[..e], s.len())
}

fn first_diff(a: &str, b: &str) -> J {
    let la: Vec<&str> = a.lines().collect();
    let lb: Vec<&str> = b.lines().collect();
    let mut i = 0;
    while i < la.len() && i < lb.len() && la[i] == lb[i] {
        i += 1;
    }
    J::obj()
        .set("first_differing_line", J::uz(i + 1))
        .set("canonical_line", J::str(&clip(la.get(i).copied().unwrap_or("<end>"), 300)))
        .set("observed_line", J::str(&clip(lb.get(i).copied().unwrap_or("<end>"), 300)))
        .set("canonical_lines", J::uz(la.len()))
        .set("observed_lines", J::uz(lb.len()))
}

// ------------------------------------------------------------------ corpus

struct Corpus {
    fixed: Vec<(String, Arc<str>)>,
    seed: u64,
    pool: usize,
    cache: BTreeMap<usize, (Arc<str>, &'static str, usize)>,
}

fn walk_kiki(dir: &std::path::Path, out: &mut Vec<std::path::PathBuf>) {
    if let Ok(rd) = std::fs::read_dir(dir) {
        let mut es: Vec<_> = rd.filter_map(|e| e.ok()).map(|e| e.path()).collect();
        es.sort();
        for p in es {
            if p.is_dir() {
                walk_kiki(&p, out);
            } else if p.extension().map(|e| e == "kiki").unwrap_or(false) {
                out.push(p);
            }
        }
    }
}

impl Corpus {
    fn new(repo: &str, seed: u64, pool: usize) -> Corpus {
        let mut files = vec![];
        walk_kiki(&std::path::Path::new(repo).join("kiki/src"), &mut files);
        walk_kiki(&std::path::Path::new(repo).join("kiki_e2e_test/src"), &mut files);
        files.sort();
        let fixed = files
            .into_iter()
            .filter_map(|p| std::fs::read_to_string(&p).ok().map(|t| (p.to_string_lossy().to_string(), Arc::from(t))))
            .collect();
        Corpus { fixed, seed, pool, cache: BTreeMap::new() }
    }
    fn size(&self) -> usize {
        self.fixed.len() + self.pool
    }
    /// Generated texts come in pairs: an odd pool index is the *sibling* of the even one before
    /// it — same length, minimally different content (one letter bumped, or two adjacent
    /// characters swapped so that even the multiset of bytes is equal). A memo keyed on anything
    /// weaker than the whole text confuses the two.
    fn get(&mut self, id: usize) -> (Arc<str>, &'static str, usize) {
        if id < self.fixed.len() {
            return (self.fixed[id].1.clone(), "repo-file", 0);
        }
        if let Some(x) = self.cache.get(&id) {
            return x.clone();
        }
        let k = id - self.fixed.len();
        let v = if k % 2 == 1 {
            let (t, cat, planted) = self.get(id - 1);
            let mut rng = Rng::derive(self.seed, &[ENGINE_A, 0x51B1, id as u64]);
            // its own stream, so that the siblings it leaves alone are what they were before
            let mut lay = Rng::derive(self.seed, &[ENGINE_A, 0x1A70, id as u64]);
            if lay.chance(1, 5) {
                (Arc::from(layout_sibling(&t, &mut lay)), cat, planted)
            } else {
                (Arc::from(sibling(&t, &mut rng)), cat, planted)
            }
        } else {
            let mut rng = Rng::derive(self.seed, &[ENGINE_A, 0x7E57, id as u64]);
            if rng.chance(1, 10) && !self.fixed.is_empty() {
                // a repository file with 1-3 line-level edits (drop / duplicate / swap lines):
                // near-valid variants of the real grammars, including the large ones
                let base = self.fixed[rng.below(self.fixed.len())].1.clone();
                let mut lines: Vec<String> = base.split_inclusive('\n').map(|l| l.to_string()).collect();
                let n = rng.range(1, 3);
                for _ in 0..n {
                    if lines.is_empty() {
                        break;
                    }
                    let i = rng.below(lines.len());
                    match rng.below(3) {
                        0 => {
                            lines.remove(i);
                        }
                        1 => {
                            let l = lines[i].clone();
                            lines.insert(i, l);
                        }
                        _ => {
                            let j = rng.below(lines.len());
                            lines.swap(i, j);
                        }
                    }
                }
                (Arc::from(lines.concat()), "repo-file-edited", 0)
            } else {
                let t = texts::ambient_text(&mut rng);
                (Arc::from(t.text), t.category, t.planted)
            }
        };
        self.cache.insert(id, v.clone());
        v
    }
}

/// A sibling that differs from `text` in layout only (line endings, trailing blanks, final
/// newline, blank lines, spacing between tokens, comments): the token sequence is the same, the
/// emitted tables are the same, only the source hash in the header (and error positions) differ.
/// A memo whose key normalises layout away hands one text the other's result.
fn layout_sibling(text: &str, rng: &mut Rng) -> String {
    let lines: Vec<&str> = text.split_inclusive('\n').collect();
    for _ in 0..8 {
        let out: String = match rng.below(8) {
            0 => {
                if text.contains("\r\n") {
                    text.replace("\r\n", "\n")
                } else {
                    text.replace('\n', "\r\n")
                }
            }
            1 => {
                // trailing blank(s) on one line or on every line
                let all = rng.chance(1, 3);
                let pick = if lines.is_empty() { 0 } else { rng.below(lines.len()) };
                let pad = if rng.chance(1, 4) { "\t" } else { " " };
                lines
                    .iter()
                    .enumerate()
                    .map(|(i, l)| {
                        if (all || i == pick) && l.ends_with('\n') {
                            let body = l.trim_end_matches('\n').trim_end_matches('\r');
                            format!("{}{}{}", body, pad, &l[body.len()..])
                        } else {
                            l.to_string()
                        }
                    })
                    .collect()
            }
            2 => {
                if let Some(t) = text.strip_suffix("\r\n").or_else(|| text.strip_suffix('\n')) {
                    t.to_string()
                } else {
                    format!("{}\n", text)
                }
            }
            3 => {
                let at = rng.below(lines.len() + 1);
                let mut o = String::new();
                for (i, l) in lines.iter().enumerate() {
                    if i == at {
                        o.push('\n');
                    }
                    o.push_str(l);
                }
                if at == lines.len() {
                    if !o.ends_with('\n') && !o.is_empty() {
                        o.push('\n');
                    }
                    o.push('\n');
                }
                o
            }
            4 => {
                // a comment line at the end or at the front
                if rng.chance(1, 2) {
                    let sep = if text.ends_with('\n') || text.is_empty() { "" } else { "\n" };
                    format!("{}{}// rev {}\n", text, sep, rng.below(90) + 10)
                } else {
                    format!("// rev {}\n{}", rng.below(90) + 10, text)
                }
            }
            5 => {
                // one blank between tokens doubled (outside attributes and comments: a line that
                // starts neither, split at its first blank after a non-blank)
                let cands: Vec<usize> = (0..lines.len())
                    .filter(|i| {
                        let t = lines[*i].trim_start();
                        !t.starts_with("//") && !t.starts_with('#') && !t.contains("//") && t.trim_end().contains(' ')
                    })
                    .collect();
                if cands.is_empty() {
                    continue;
                }
                let li = cands[rng.below(cands.len())];
                let l = lines[li];
                let lead = l.len() - l.trim_start().len();
                let pos = lead + l.trim_start().find(' ').unwrap_or(0);
                let mut o = String::new();
                for (i, x) in lines.iter().enumerate() {
                    if i == li {
                        o.push_str(&x[..pos]);
                        o.push(' ');
                        o.push_str(&x[pos..]);
                    } else {
                        o.push_str(x);
                    }
                }
                o
            }
            6 => {
                // indentation of one indented line: four blanks <-> one tab
                let cands: Vec<usize> =
                    (0..lines.len()).filter(|i| lines[*i].starts_with("    ") || lines[*i].starts_with('\t')).collect();
                if cands.is_empty() {
                    continue;
                }
                let li = cands[rng.below(cands.len())];
                let mut o = String::new();
                for (i, x) in lines.iter().enumerate() {
                    if i == li {
                        if let Some(r) = x.strip_prefix("    ") {
                            o.push('\t');
                            o.push_str(r);
                        } else {
                            o.push_str("    ");
                            o.push_str(&x[1..]);
                        }
                    } else {
                        o.push_str(x);
                    }
                }
                o
            }
            _ => {
                // the text of an existing comment changed by one character
                if let Some(p) = text.find("// ") {
                    let mut o = String::new();
                    o.push_str(&text[..p + 3]);
                    o.push('~');
                    o.push_str(&text[p + 3..]);
                    o
                } else {
                    continue;
                }
            }
        };
        if out != text {
            return out;
        }
    }
    format!("{}\n", text)
}

fn sibling(text: &str, rng: &mut Rng) -> String {
    // half of the siblings are *revisions* of the grammar: the same names, one rule changed
    // (a field or variant line dropped, or one terminal reference replaced by another). A cache
    // keyed on names that survives from one call to the next is only wrong for such a pair.
    if rng.chance(1, 2) {
        let lines: Vec<&str> = text.split_inclusive('\n').collect();
        let body: Vec<usize> = (0..lines.len())
            .filter(|i| {
                let l = lines[*i];
                (l.starts_with("    ") || l.starts_with('\t'))
                    && !l.trim().is_empty()
                    && !l.trim_start().starts_with("//")
                    && !l.trim_start().starts_with('$')
            })
            .collect();
        let dollars: Vec<(usize, usize)> = {
            // (start, end) of every `$Name`
            let b = text.as_bytes();
            let mut v = vec![];
            let mut i = 0;
            while i < b.len() {
                if b[i] == b'$' {
                    let mut j = i + 1;
                    while j < b.len() && (b[j].is_ascii_alphanumeric() || b[j] == b'_') {
                        j += 1;
                    }
                    if j > i + 1 {
                        v.push((i, j));
                    }
                    i = j;
                } else {
                    i += 1;
                }
            }
            v
        };
        // add an alternative to an enum: a new variant starting with an existing terminal (changes
        // the nonterminal's FIRST set) or an empty one (makes it nullable)
        let enums: Vec<usize> = (0..lines.len()).filter(|i| lines[*i].starts_with("enum ") && lines[*i].trim_end().ends_with('{')).collect();
        if rng.chance(1, 2) && !enums.is_empty() && !dollars.is_empty() {
            let at = enums[rng.below(enums.len())];
            let (d0, d1) = dollars[rng.below(dollars.len())];
            let extra = if rng.chance(3, 4) {
                format!("    Extra{}({})\n", rng.below(90) + 10, &text[d0..d1])
            } else {
                format!("    Nothing{}\n", rng.below(90) + 10)
            };
            let mut out = String::new();
            for (i, l) in lines.iter().enumerate() {
                out.push_str(l);
                if i == at {
                    out.push_str(&extra);
                }
            }
            return out;
        }
        if rng.chance(1, 2) && !body.is_empty() {
            let drop = body[rng.below(body.len())];
            let out: String = lines.iter().enumerate().filter(|(i, _)| *i != drop).map(|(_, l)| *l).collect();
            if out != text {
                return out;
            }
        } else if dollars.len() >= 2 {
            let (a0, a1) = dollars[rng.below(dollars.len())];
            let (b0, b1) = dollars[rng.below(dollars.len())];
            if text[a0..a1] != text[b0..b1] {
                let mut out = String::new();
                out.push_str(&text[..a0]);
                out.push_str(&text[b0..b1]);
                out.push_str(&text[a1..]);
                return out;
            }
        }
    }
    let mut b: Vec<u8> = text.as_bytes().to_vec();
    let letters: Vec<usize> = (0..b.len()).filter(|i| b[*i].is_ascii_lowercase()).collect();
    let swaps: Vec<usize> = (0..b.len().saturating_sub(1))
        .filter(|i| b[*i].is_ascii_alphanumeric() && b[*i + 1].is_ascii_alphanumeric() && b[*i] != b[*i + 1])
        .collect();
    if rng.chance(1, 2) && !swaps.is_empty() {
        let i = swaps[rng.below(swaps.len())];
        b.swap(i, i + 1);
    } else if !letters.is_empty() {
        let i = letters[rng.below(letters.len())];
        b[i] = if b[i] == b'z' { b'a' } else { b[i] + 1 };
    } else if !swaps.is_empty() {
        let i = swaps[rng.below(swaps.len())];
        b.swap(i, i + 1);
    }
    String::from_utf8(b).unwrap_or_else(|_| text.to_string())
}

// ------------------------------------------------------------------- shrink

struct Failure {
    script: Script,
    texts: Vec<Arc<str>>,
    failing_step: usize,
}

/// Canonical outcome of `text` computed by a fresh child process (cached per text): replaying or
/// shrinking a script must not put a call of its own in front of the script, or a dependence on
/// the call history (a memo of the last result, say) sees another history than the recorded one.
fn canonical_isolated(text: &str, base_dir: &str) -> Option<Outcome> {
    use std::sync::Mutex;
    static CACHE: Mutex<Option<BTreeMap<(u64, usize), Outcome>>> = Mutex::new(None);
    let key = (fnv_str(text), text.len());
    if let Some(o) = CACHE.lock().unwrap().get_or_insert_with(BTreeMap::new).get(&key) {
        return Some(o.clone());
    }
    let tf = format!("{}/canon-{}-{:016x}.kiki", base_dir, std::process::id(), key.0);
    std::fs::write(&tf, text.as_bytes()).ok()?;
    let exe = std::env::current_exe().ok()?;
    let mut cmd = std::process::Command::new(exe);
    cmd.arg("canonfull").arg(&tf);
    for nme in ENV_NAMES {
        cmd.env_remove(nme);
    }
    let out = cmd.output().ok();
    let _ = std::fs::remove_file(&tf);
    let out = out?;
    let s = String::from_utf8(out.stdout).ok()?;
    let (class, payload) = s.split_once('\n')?;
    let class: &'static str = match class {
        "ok" => "ok",
        "err" => "err",
        "panic" => "panic",
        _ => return None,
    };
    let o = Outcome { class, payload: payload.to_string() };
    CACHE.lock().unwrap().get_or_insert_with(BTreeMap::new).insert(key, o.clone());
    Some(o)
}

fn fails(f: &Failure, base_dir: &str) -> Option<(Outcome, Outcome)> {
    let st = &f.script.steps[f.failing_step];
    let canon = match canonical_isolated(&f.texts[st.text], base_dir) {
        Some(c) => c,
        None => canonical(&f.texts[st.text], base_dir),
    };
    let recs = exec_script(&f.script, &f.texts, base_dir, Some(f.failing_step));
    if recs.len() <= f.failing_step {
        return None;
    }
    let got = &recs[f.failing_step].outcome;
    if *got != canon && got.class != "timeout" && canon.class != "timeout" {
        Some((canon, got.clone()))
    } else {
        None
    }
}

fn shrink(mut f: Failure, base_dir: &str, budget: usize) -> (Failure, usize) {
    let mut steps = 0usize;
    // drop everything after the failing step
    f.script.steps.truncate(f.failing_step + 1);
    // 1. drop script steps before the failing call (last to first)
    let mut i = f.failing_step;
    while i > 0 && steps < budget {
        i -= 1;
        let mut c = Failure { script: f.script.clone(), texts: f.texts.clone(), failing_step: f.failing_step - 1 };
        c.script.steps.remove(i);
        steps += 1;
        if fails(&c, base_dir).is_some() {
            f = c;
        }
    }
    // 2. drop ambient mutations and clock jumps, step by step
    for i in 0..f.script.steps.len() {
        for what in 0..8 {
            if steps >= budget {
                break;
            }
            let mut c = Failure { script: f.script.clone(), texts: f.texts.clone(), failing_step: f.failing_step };
            let st = &mut c.script.steps[i];
            match what {
                0 if !st.env.is_empty() => st.env.clear(),
                1 if st.cwd.is_some() => st.cwd = None,
                2 if st.real_jump_ns != 0 || st.mono_jump_ns != 0 => {
                    st.real_jump_ns = 0;
                    st.mono_jump_ns = 0;
                }
                3 if st.clock_tick_ns != 0 => st.clock_tick_ns = 0,
                4 if st.env_salt != 0 => st.env_salt = 0,
                5 if st.cpus != 1 => st.cpus = 1,
                6 if st.placement != 0 => st.placement = 0,
                7 if st.stdio_fault != 0 => st.stdio_fault = 0,
                _ => continue,
            }
            steps += 1;
            if fails(&c, base_dir).is_some() {
                f = c;
            }
        }
    }
    // 3. shrink the failing text by line-level delta debugging
    let tid = f.script.steps[f.failing_step].text;
    let mut lines: Vec<String> = f.texts[tid].split_inclusive('\n').map(|s| s.to_string()).collect();
    let mut chunk = (lines.len() / 2).max(1);
    loop {
        let mut i = 0;
        let mut progressed = false;
        while i < lines.len() && steps < budget {
            let end = (i + chunk).min(lines.len());
            let mut cand = lines.clone();
            cand.drain(i..end);
            let mut c = Failure { script: f.script.clone(), texts: f.texts.clone(), failing_step: f.failing_step };
            c.texts[tid] = Arc::from(cand.concat());
            steps += 1;
            if fails(&c, base_dir).is_some() {
                lines = cand;
                f = c;
                progressed = true;
            } else {
                i += chunk;
            }
        }
        if steps >= budget {
            break;
        }
        if chunk > 1 {
            chunk /= 2;
        } else if !progressed {
            break;
        }
    }
    // 4. garbage-collect unused incarnations and texts
    let mut used_inc: Vec<usize> = f.script.steps.iter().map(|s| s.inc).collect();
    used_inc.sort();
    used_inc.dedup();
    let mut used_txt: Vec<usize> = f.script.steps.iter().map(|s| s.text).collect();
    used_txt.sort();
    used_txt.dedup();
    let incs: Vec<(u64, u64)> = used_inc.iter().map(|i| f.script.incarnations[*i]).collect();
    let txts: Vec<Arc<str>> = used_txt.iter().map(|i| f.texts[*i].clone()).collect();
    for s in f.script.steps.iter_mut() {
        s.inc = used_inc.iter().position(|x| *x == s.inc).unwrap();
        s.text = used_txt.iter().position(|x| *x == s.text).unwrap();
    }
    f.script.incarnations = incs;
    f.texts = txts;
    (f, steps)
}

fn failure_json(seed: u64, run: u64, f: &Failure, canon: &Outcome, got: &Outcome, extra: J) -> J {
    let kind = if canon.class != got.class {
        "outcome-class-differs"
    } else if canon.class == "ok" {
        "emitted-bytes-differ"
    } else {
        "error-differs"
    };
    J::obj()
        .set("property", J::str("C14"))
        .set("engine", J::str("ambient"))
        .set("verif_seed", J::Int(seed as i128))
        .set("run", J::Int(run as i128))
        .set("kind", J::str(kind))
        .set("texts", J::Arr(f.texts.iter().map(|t| J::str(t)).collect()))
        .set("script", script_to_json(&f.script))
        .set("failing_step", J::uz(f.failing_step))
        .set(
            "canonical",
            J::obj()
                .set("config", J::str("fresh thread, keys (0,0), epoch clock, clean environment"))
                .set("class", J::str(canon.class))
                .set("digest", J::str(&format!("{:016x}", canon.digest())))
                .set("payload", J::str(&clip(&canon.payload, 4000))),
        )
        .set(
            "observed",
            J::obj()
                .set("class", J::str(got.class))
                .set("digest", J::str(&format!("{:016x}", got.digest())))
                .set("payload", J::str(&clip(&got.payload, 4000))),
        )
        .set("diff", first_diff(&canon.payload, &got.payload))
        .set("extra", extra)
}

// -------------------------------------------------------------------- probe

fn probe() -> Result<J, String> {
    // (1) hash keys follow the injected values
    let g0 = GETRANDOM_CALLS.load(Ordering::SeqCst);
    let mut orders = BTreeSet::new();
    let mut same = vec![];
    for i in 0..8u64 {
        let t = SimThread::spawn((0x1234_5678_9ABC_DEF0u64.wrapping_mul(i + 1), i));
        orders.insert(t.call(Cmd::Canary).expect("canary").canary);
        t.retire();
    }
    for _ in 0..2 {
        let t = SimThread::spawn((77, 99));
        same.push(t.call(Cmd::Canary).expect("canary").canary);
        t.retire();
    }
    let g1 = GETRANDOM_CALLS.load(Ordering::SeqCst);
    if g1 - g0 < 10 {
        return Err(format!("interposed getrandom served only {} of 10 thread key requests", g1 - g0));
    }
    if orders.len() < 4 {
        return Err(format!("8 different key pairs produced only {} canary orders", orders.len()));
    }
    if same[0] != same[1] {
        return Err("equal injected keys produced different canary orders".into());
    }
    // k0 is incremented per map instance: the second map on a thread must differ from the first
    // (statistically; we only record it)
    // (2) clocks follow the simulated values
    SIM_REAL_NS.store(EPOCH_REAL_NS + 5_000_000_000, Ordering::SeqCst);
    let now = std::time::SystemTime::now().duration_since(std::time::UNIX_EPOCH).map_err(|e| e.to_string())?;
    if now.as_secs() != 1_700_000_005 {
        return Err(format!("SystemTime::now() did not follow the simulated clock: {}", now.as_secs()));
    }
    let i0 = std::time::Instant::now();
    SIM_MONO_NS.fetch_add(123_000_000_000, Ordering::SeqCst);
    let dt = i0.elapsed().as_secs();
    if dt != 123 {
        return Err(format!("Instant did not follow the simulated monotonic clock: {dt}"));
    }
    SIM_REAL_NS.store(EPOCH_REAL_NS, Ordering::SeqCst);
    SIM_MONO_NS.store(EPOCH_MONO_NS, Ordering::SeqCst);
    // (2b) environment reads inside a call follow the simulated environment
    std::env::remove_var("KIKI_VERIF_PROBE_VAR");
    let mut seen = BTreeSet::new();
    for salt in 1..=16u64 {
        TL_ENV_SALT.with(|s| s.set(salt));
        TL_IN_GENERATE.with(|f| f.set(true));
        let v = std::env::var("KIKI_VERIF_PROBE_VAR").ok();
        TL_IN_GENERATE.with(|f| f.set(false));
        TL_ENV_SALT.with(|s| s.set(0));
        seen.insert(v);
    }
    if seen.len() < 3 {
        return Err(format!("interposed getenv is not in effect: 16 salts gave {} distinct values", seen.len()));
    }
    std::env::set_var("KIKI_VERIF_PROBE_VAR", "real");
    if std::env::var("KIKI_VERIF_PROBE_VAR").ok().as_deref() != Some("real") {
        return Err("getenv does not answer from the real environment outside a simulated call".into());
    }
    std::env::remove_var("KIKI_VERIF_PROBE_VAR");
    // (2c) thread creation inside a simulated call is observed
    let s0 = THREADS_SPAWNED_IN_GENERATE.load(Ordering::SeqCst);
    TL_IN_GENERATE.with(|f| f.set(true));
    let h = std::thread::spawn(|| 1u8);
    TL_IN_GENERATE.with(|f| f.set(false));
    let _ = h.join();
    if THREADS_SPAWNED_IN_GENERATE.load(Ordering::SeqCst) != s0 + 1 {
        return Err("interposed pthread_create does not observe thread creation".into());
    }
    // (2d) the CPU count seen inside a simulated call follows the simulator
    TL_SIM_CPUS.with(|c| c.set(3));
    TL_IN_GENERATE.with(|f| f.set(true));
    let par = std::thread::available_parallelism().map(|n| n.get()).unwrap_or(0);
    TL_IN_GENERATE.with(|f| f.set(false));
    TL_SIM_CPUS.with(|c| c.set(0));
    if par == 0 || par > 3 {
        return Err(format!("interposed sched_getaffinity is not in effect: available_parallelism() = {par} under 3 simulated CPUs"));
    }
    // (3) the real clock is still reachable for accounting
    let a = real_now_s();
    if a <= 0.0 {
        return Err("raw clock_gettime syscall failed".into());
    }
    Ok(J::obj()
        .set("getrandom_calls_served", J::Int((g1 - g0) as i128))
        .set("distinct_canary_orders_of_8_key_pairs", J::uz(orders.len()))
        .set("equal_keys_equal_order", J::Bool(true))
        .set("clock_seam", J::Bool(true))
        .set("getenv_seam_distinct_values_of_16_salts", J::uz(seen.len()))
        .set("available_parallelism_under_3_simulated_cpus", J::uz(par)))
}

// --------------------------------------------------------------------- main

fn arg_val(args: &[String], name: &str) -> Option<String> {
    args.iter().position(|a| a == name).and_then(|i| args.get(i + 1)).cloned()
}

fn main() {
    let args: Vec<String> = std::env::args().collect();
    std::panic::set_hook(Box::new(|_| {}));
    let base_dir = std::env::current_dir().map(|p| p.to_string_lossy().to_string()).unwrap_or("/".into());
    match args.get(1).map(|s| s.as_str()) {
        Some("probe") => match probe() {
            Ok(j) => println!("{}", j.to_string()),
            Err(e) => {
                eprintln!("harness error: seam liveness probe failed: {e}");
                std::process::exit(2);
            }
        },
        Some("run") => {
            let seed: u64 = arg_val(&args, "--seed").and_then(|s| s.parse().ok()).unwrap_or(1);
            let from: u64 = arg_val(&args, "--from").and_then(|s| s.parse().ok()).unwrap_or(0);
            let to: u64 = arg_val(&args, "--to").and_then(|s| s.parse().ok()).unwrap_or(100);
            let pool: usize = arg_val(&args, "--pool").and_then(|s| s.parse().ok()).unwrap_or(300);
            let pool_base: usize = arg_val(&args, "--pool-base").and_then(|s| s.parse().ok()).unwrap_or(0);
            let budget_s: f64 = arg_val(&args, "--budget-s").and_then(|s| s.parse().ok()).unwrap_or(1e9);
            let repo = arg_val(&args, "--repo").unwrap_or("/repo".into());
            let out = arg_val(&args, "--out").expect("--out");
            let replay_dir = arg_val(&args, "--replay-dir").unwrap_or(".".into());
            let log_path = arg_val(&args, "--log");
            if let Err(e) = probe() {
                eprintln!("harness error: seam liveness probe failed: {e}");
                std::process::exit(2);
            }
            let t0 = real_now_s();
            let mut corpus = Corpus::new(&repo, seed, pool);
            if corpus.fixed.len() < 20 {
                eprintln!("harness error: workload starvation: only {} .kiki files found under {repo}", corpus.fixed.len());
                std::process::exit(2);
            }
            let nfixed = corpus.fixed.len();
            let mut canon: BTreeMap<usize, Outcome> = BTreeMap::new();
            let mut digest = Fnv::new();
            let mut log = String::new();
            let mut calls = 0u64;
            let mut runs_done = 0u64;
            let mut distinct_pairs: BTreeSet<u64> = BTreeSet::new();
            let mut canaries: BTreeSet<u64> = BTreeSet::new();
            let mut texts_seen: BTreeSet<usize> = BTreeSet::new();
            let mut class_counts: BTreeMap<String, u64> = BTreeMap::new();
            let mut gr_in_gen = 0u64;
            let mut clock_in_gen = 0u64;
            let mut getenv_in_gen = 0u64;
            let mut env_salted_calls = 0u64;
            let mut ticking_calls = 0u64;
            let mut broken_stdio_calls = 0u64;
            let mut sim_real_span: i128 = 0;
            let mut sim_mono_span: u128 = 0;
            let mut env_mutations = 0u64;
            let mut cwd_changes = 0u64;
            let mut clock_jumps = 0u64;
            let mut reused_calls = 0u64;
            let mut violations: Vec<J> = vec![];
            let mut samples: Vec<J> = vec![];
            let mut timeout_texts: BTreeSet<usize> = BTreeSet::new();
            let mut firstcall_violations: Vec<J> = vec![];
            let mut firstcall_children = 0u64;
            let mut threads_spawned_total = 0u64;
            let mut amplified_runs = 0u64;
            let mut multi_violation_texts: BTreeSet<usize> = BTreeSet::new();
            let mut suffix_path_texts: BTreeSet<usize> = BTreeSet::new();
            let mut conflict_texts: BTreeSet<usize> = BTreeSet::new();
            let mut r = from;
            while r < to {
                if real_now_s() - t0 > budget_s {
                    break;
                }
                if TIMEOUTS.load(Ordering::SeqCst) >= 2 {
                    // abandoned threads keep burning CPU: stop this worker early
                    break;
                }
                let mut rng = Rng::derive(seed, &[ENGINE_A, r]);
                // the run's corpus
                let n_texts = rng.range(1, 4);
                let mut ids = vec![];
                for _ in 0..n_texts {
                    let id = if rng.chance(1, 4) { rng.below(nfixed) } else { nfixed + pool_base + rng.below(pool) };
                    ids.push(id);
                    if id >= nfixed && ids.len() < 4 && rng.chance(1, 2) {
                        // the text's sibling in the same run
                        ids.push(nfixed + ((id - nfixed) ^ 1));
                    }
                }
                let n_texts = ids.len();
                let mut texts: Vec<Arc<str>> = vec![];
                let mut cats: Vec<&'static str> = vec![];
                for id in &ids {
                    let (t, cat, planted) = corpus.get(*id);
                    cats.push(cat);
                    if !canon.contains_key(id) {
                        let c = canonical(&t, &base_dir);
                        // every 12th new text (decided by the text id alone): what does the FIRST
                        // call of a fresh process return under a different real environment?
                        let mut prng = Rng::derive(seed, &[ENGINE_A, 0xF1C5, *id as u64, from]);
                        // (errors and panics more often than successes: error paths are where
                        // diagnostics-minded changes read the environment)
                        let rate = if c.class == "ok" { 16 } else if c.class == "panic" { 1 } else { 3 };
                        if prng.below(rate) == 0 && c.class != "timeout" && firstcall_violations.len() < 3 {
                            let n = prng.range(1, 4);
                            let mut envs: Vec<(String, String)> = vec![];
                            for _ in 0..n {
                                envs.push(((*prng.pick(ENV_NAMES)).to_string(), (*prng.pick(ENV_VALUES)).to_string()));
                            }
                            if prng.chance(3, 4) {
                                envs.push(("RUST_BACKTRACE".to_string(), (*prng.pick(&["1", "full", "1", "0"])).to_string()));
                            }
                            let tf = format!("{replay_dir}/firstcall-{}-{}.kiki", from, id);
                            std::fs::write(&tf, t.as_bytes()).expect("write text");
                            let exe = std::env::current_exe().expect("current_exe");
                            let mut cmd = std::process::Command::new(exe);
                            cmd.arg("firstcall").arg(&tf);
                            for nme in ENV_NAMES {
                                cmd.env_remove(nme);
                            }
                            for (k, v) in &envs {
                                cmd.env(k, v);
                            }
                            firstcall_children += 1;
                            if let Ok(out) = cmd.output() {
                                let got = String::from_utf8_lossy(&out.stdout).trim().to_string();
                                if std::env::var("VERIF_DEBUG_FIRSTCALL").is_ok() {
                                    eprintln!("firstcall id={} class={} shape={} envs={:?} got={:?} want={}:{:016x}", id, c.class, c.payload.chars().take(12).collect::<String>(), envs, got, c.class, c.digest());
                                }
                                let want = format!("{}:{:016x}", c.class, c.digest());
                                if !got.is_empty() && got != want && !got.starts_with("timeout") {
                                    let mut ej = J::obj();
                                    for (k, v) in &envs {
                                        ej.put(k, J::str(v));
                                    }
                                    let path = format!("{replay_dir}/C14-seed{seed}-firstcall-text{id}.json");
                                    let j = J::obj()
                                        .set("property", J::str("C14"))
                                        .set("engine", J::str("ambient"))
                                        .set("verif_seed", J::Int(seed as i128))
                                        .set("kind", J::str("first-call-in-process-differs"))
                                        .set("texts", J::Arr(vec![J::str(&t)]))
                                        .set("environment", ej)
                                        .set("canonical", J::str(&want))
                                        .set("observed", J::str(&got))
                                        .set("text_id", J::uz(*id));
                                    std::fs::write(&path, j.to_string()).expect("write replay");
                                    firstcall_violations.push(J::obj().set("replay", J::str(&path)).set("kind", J::str("first-call-in-process-differs")).set("run", J::Int(r as i128)));
                                }
                            }
                            let _ = std::fs::remove_file(&tf);
                        }
                        *class_counts.entry(format!("canonical:{}:{}", cat, c.class)).or_insert(0) += 1;
                        if c.class == "err" {
                            let mut shape: String =
                                c.payload.chars().take_while(|ch| ch.is_ascii_alphanumeric()).collect();
                            if shape == "Lex" {
                                shape.push_str(if c.payload.ends_with("None)") { "(eof)" } else { "(char)" });
                            }
                            *class_counts.entry(format!("error_shape:{shape}")).or_insert(0) += 1;
                        }
                        if planted >= 2 {
                            multi_violation_texts.insert(*id);
                        }
                        if c.class == "err" && c.payload.starts_with("TableConflict") {
                            conflict_texts.insert(*id);
                        }
                        if c.class == "ok"
                            && ["Eof2", "Quasiterminal2", "QuasiterminalKind2", "NonterminalKind2", "State2", "Node2", "Action2", "RuleKind2", "ACTION_TABLE2", "GOTO_TABLE2"]
                                .iter()
                                .any(|n| c.payload.contains(&format!(" {n} ")) || c.payload.contains(&format!("    {n},")) || c.payload.contains(&format!("{n}:")))
                        {
                            suffix_path_texts.insert(*id);
                        }
                        canon.insert(*id, c);
                    }
                    texts_seen.insert(*id);
                    texts.push(t);
                }
                let (mut script, cfg) = draw_script(&mut rng, n_texts, &base_dir);
                // a text and its sibling back to back on one thread (both orders over the runs): what
                // a cache that outlives the call and is keyed on less than the whole text is wrong for
                for i in 0..ids.len() {
                    for j in 0..ids.len() {
                        if i != j
                            && ids[i] >= nfixed
                            && ids[j] == nfixed + ((ids[i] - nfixed) ^ 1)
                            && rng.chance(1, 2)
                            && script.steps.len() < 14
                        {
                            let k = (rng.next_u64(), rng.next_u64());
                            script.incarnations.push(k);
                            let inc = script.incarnations.len() - 1;
                            for t in [i, j] {
                                script.steps.push(Step {
                                    inc,
                                    env: vec![],
                                    cwd: None,
                                    real_jump_ns: 0,
                                    mono_jump_ns: 0,
                                    clock_tick_ns: 0,
                                    env_salt: 0,
                                    cpus: 1,
                                    placement: 0,
                                    stdio_fault: 0,
                                    text: t,
                                });
                            }
                        }
                    }
                }
                // CPU-count sweep: one of the run's texts under every CPU count from 2 to 16 (work that
                // is split by available_parallelism() has its boundaries moved by each value). Half of
                // the runs holding a big conflicting grammar do it, one run in twelve otherwise.
                {
                    let big: Vec<usize> = (0..ids.len()).filter(|i| cats[*i] == "conflict-big").collect();
                    let pick = if !big.is_empty() && rng.chance(4, 5) {
                        Some(big[rng.below(big.len())])
                    } else if rng.chance(1, 12) {
                        Some(rng.below(ids.len()))
                    } else {
                        None
                    };
                    if let Some(t) = pick {
                        let k = (rng.next_u64(), rng.next_u64());
                        script.incarnations.push(k);
                        let inc = script.incarnations.len() - 1;
                        for cpus in 2..=16u32 {
                            script.steps.push(Step {
                                inc,
                                env: vec![],
                                cwd: None,
                                real_jump_ns: 0,
                                mono_jump_ns: 0,
                                clock_tick_ns: 0,
                                env_salt: 0,
                                cpus,
                                placement: 0,
                                stdio_fault: 0,
                                text: t,
                            });
                        }
                    }
                }
                let mut recs = exec_script(&script, &texts, &base_dir, None);
                runs_done += 1;
                let spawned: u64 = recs.iter().map(|x| x.threads_spawned).sum();
                threads_spawned_total += spawned;
                if spawned > 0 {
                    // generate spawned threads whose schedule is not behind a seam: the same script
                    // is executed three more times (statistical amplification; any difference from
                    // the canonical outcome is still a violation, but its replay is not exact)
                    for _ in 0..3 {
                        let again = exec_script(&script, &texts, &base_dir, None);
                        amplified_runs += 1;
                        if again.len() == recs.len()
                            && again.iter().zip(recs.iter()).any(|(a, b)| a.outcome != b.outcome)
                        {
                            recs = again;
                            break;
                        }
                    }
                }
                for (i, rec) in recs.iter().enumerate() {
                    let st = &script.steps[i];
                    let id = ids[st.text];
                    let keys = script.incarnations[st.inc];
                    calls += 1;
                    gr_in_gen += rec.getrandom_in_generate;
                    clock_in_gen += rec.clock_reads_in_generate;
                    getenv_in_gen += rec.getenv_in_generate;
                    env_salted_calls += (st.env_salt != 0) as u64;
                    ticking_calls += (st.clock_tick_ns != 0) as u64;
                    broken_stdio_calls += (st.stdio_fault != 0) as u64;
                    canaries.insert(rec.canary);
                    env_mutations += st.env.len() as u64;
                    cwd_changes += st.cwd.is_some() as u64;
                    if st.real_jump_ns != 0 || st.mono_jump_ns != 0 {
                        clock_jumps += 1;
                    }
                    sim_real_span += (st.real_jump_ns as i128).abs();
                    sim_mono_span += st.mono_jump_ns as u128;
                    if rec.nth_call_on_thread > 1 {
                        reused_calls += 1;
                    }
                    let mut pf = Fnv::new();
                    pf.u64(id as u64);
                    pf.u64(keys.0);
                    pf.u64(keys.1);
                    pf.u64(rec.nth_call_on_thread as u64);
                    distinct_pairs.insert(pf.0);
                    *class_counts.entry(format!("call:{}", rec.outcome.class)).or_insert(0) += 1;
                    let line = format!(
                        "{} {} {} {:016x} {:016x} {} {} {:016x} {:016x} {} {}\n",
                        r,
                        i,
                        st.inc,
                        keys.0,
                        keys.1,
                        id,
                        rec.outcome.class,
                        rec.outcome.digest(),
                        rec.canary,
                        rec.getrandom_in_generate,
                        rec.clock_reads_in_generate
                    );
                    digest.str(&line);
                    if log_path.is_some() {
                        log.push_str(&line);
                    }
                    let c = &canon[&id];
                    if rec.outcome.class == "timeout" || c.class == "timeout" {
                        // the call (or the canonical call) did not return within the real-time
                        // limit: that is C07's subject, not a statement about C14
                        *class_counts.entry("timeout_calls_skipped".into()).or_insert(0) += 1;
                        timeout_texts.insert(id);
                        continue;
                    }
                    if rec.outcome != *c && violations.len() < 3 {
                        let f = Failure { script: script.clone(), texts: texts.clone(), failing_step: i };
                        let (mut small, shrink_steps) = shrink(f, &base_dir, 400);
                        // Shrinking runs candidates one after another in this process, so for a
                        // dependence on the call history an accepted candidate may owe its failure
                        // to the candidates before it. The minimised script is therefore confirmed
                        // in a fresh process; if it does not fail there, the recorded script (cut
                        // at the failing step) is reported instead.
                        {
                            let probe_path = format!("{replay_dir}/C14-seed{seed}-run{r}-step{i}.probe.json");
                            let (pc, pg) = (c.clone(), rec.outcome.clone());
                            let pj = failure_json(seed, r, &small, &pc, &pg, J::Null);
                            let confirmed = std::fs::write(&probe_path, pj.to_string()).is_ok()
                                && std::env::current_exe()
                                    .ok()
                                    .and_then(|exe| std::process::Command::new(exe).arg("replay").arg(&probe_path).output().ok())
                                    .map(|o| o.status.code() == Some(1))
                                    .unwrap_or(true);
                            let _ = std::fs::remove_file(&probe_path);
                            if !confirmed {
                                let mut full = Failure { script: script.clone(), texts: texts.clone(), failing_step: i };
                                full.script.steps.truncate(i + 1);
                                small = full;
                                *class_counts.entry("minimised_script_not_confirmed_in_fresh_process(recorded script kept)".into()).or_insert(0) += 1;
                            }
                        }
                        let (sc, sg) = match fails(&small, &base_dir) {
                            Some(x) => x,
                            None => (c.clone(), rec.outcome.clone()),
                        };
                        let j = failure_json(
                            seed,
                            r,
                            &small,
                            &sc,
                            &sg,
                            J::obj()
                                .set("shrink_steps", J::uz(shrink_steps))
                                .set("original_steps", J::uz(script.steps.len()))
                                .set("original_text_bytes", J::uz(texts[st.text].len()))
                                .set("text_id", J::uz(id))
                                .set("run_config", cfg.clone()),
                        );
                        let path = format!("{replay_dir}/C14-seed{seed}-run{r}-step{i}.json");
                        std::fs::write(&path, j.to_string()).expect("write replay");
                        violations.push(J::obj().set("replay", J::str(&path)).set("kind", j.get("kind").cloned().unwrap_or(J::Null)).set("run", J::Int(r as i128)));
                    } else if rec.outcome != *c {
                        *class_counts.entry("violations_not_minimised".into()).or_insert(0) += 1;
                    }
                    if rec.outcome != *c {
                        *class_counts.entry("violations".into()).or_insert(0) += 1;
                    }
                }
                if samples.len() < 2 {
                    samples.push(
                        J::obj()
                            .set("run", J::Int(r as i128))
                            .set("config", cfg)
                            .set("text_ids", J::Arr(ids.iter().map(|i| J::uz(*i)).collect()))
                            .set("script", script_to_json(&script))
                            .set(
                                "outcomes",
                                J::Arr(
                                    recs.iter()
                                        .map(|x| J::str(&format!("{}:{:016x}", x.outcome.class, x.outcome.digest())))
                                        .collect(),
                                ),
                            ),
                    );
                }
                r += 1;
            }
            if let Some(p) = log_path {
                std::fs::write(p, log).expect("write log");
            }
            let mut cc = J::obj();
            for (k, v) in &class_counts {
                cc.put(k, J::Int(*v as i128));
            }
            let mut canon_j = J::obj();
            for (id, c) in &canon {
                canon_j.put(&id.to_string(), J::str(&format!("{:016x}", c.digest())));
            }
            let summary = J::obj()
                .set("from", J::Int(from as i128))
                .set("to", J::Int(r as i128))
                .set("requested_to", J::Int(to as i128))
                .set("runs", J::Int(runs_done as i128))
                .set("calls", J::Int(calls as i128))
                .set("distinct_text_key_pairs", J::uz(distinct_pairs.len()))
                .set("distinct_texts", J::uz(texts_seen.len()))
                .set("distinct_canary_orders", J::uz(canaries.len()))
                .set("fixed_corpus_files", J::uz(nfixed))
                .set("corpus_size", J::uz(corpus.size()))
                .set("getrandom_calls_served", J::Int(GETRANDOM_CALLS.load(Ordering::SeqCst) as i128))
                .set("getrandom_unplanned", J::Int(GETRANDOM_UNPLANNED.load(Ordering::SeqCst) as i128))
                .set("getrandom_in_generate", J::Int(gr_in_gen as i128))
                .set("clock_reads_in_generate", J::Int(clock_in_gen as i128))
                .set("getenv_in_generate", J::Int(getenv_in_gen as i128))
                .set("calls_with_simulated_environment", J::Int(env_salted_calls as i128))
                .set("calls_with_ticking_clock", J::Int(ticking_calls as i128))
                .set("calls_with_broken_stdio", J::Int(broken_stdio_calls as i128))
                .set("clock_reads_total", J::Int(CLOCK_READS.load(Ordering::SeqCst) as i128))
                .set("env_mutations", J::Int(env_mutations as i128))
                .set("cwd_changes", J::Int(cwd_changes as i128))
                .set("clock_jumps", J::Int(clock_jumps as i128))
                .set("calls_on_reused_thread", J::Int(reused_calls as i128))
                .set("simulated_realtime_span_s", J::Int(sim_real_span / 1_000_000_000))
                .set("simulated_monotonic_span_s", J::Int((sim_mono_span / 1_000_000_000) as i128))
                .set("texts_with_2plus_planted_violations", J::uz(multi_violation_texts.len()))
                .set("texts_with_table_conflict", J::uz(conflict_texts.len()))
                .set("accepted_texts_on_suffix_path", J::uz(suffix_path_texts.len()))
                .set("counts", cc)
                .set("digest", J::str(&format!("{:016x}", digest.0)))
                .set("canonical_digests", canon_j)
                .set("samples", J::Arr(samples))
                .set("violations", J::Arr({
                    let mut v = violations;
                    v.extend(firstcall_violations);
                    v
                }))
                .set("firstcall_children", J::Int(firstcall_children as i128))
                .set("threads_spawned_inside_generate", J::Int(threads_spawned_total as i128))
                .set("stdio_writes_inside_generate", J::Int(STDIO_WRITES_IN_GENERATE.load(Ordering::SeqCst) as i128))
                .set("stdio_write_faults_fired", J::Int(STDIO_WRITE_FAULTS_FIRED.load(Ordering::SeqCst) as i128))
                .set("amplified_runs", J::Int(amplified_runs as i128))
                .set("generate_timeouts", J::Int(TIMEOUTS.load(Ordering::SeqCst) as i128))
                .set("timeout_text_ids", J::Arr(timeout_texts.iter().map(|i| J::uz(*i)).collect()))
                .set("wall_s", J::Int(((real_now_s() - t0) * 1000.0) as i128));
            std::fs::write(&out, summary.to_string()).expect("write summary");
        }
        Some("replay") => {
            let file = args.get(2).expect("replay file");
            let j = J::parse(&std::fs::read_to_string(file).expect("read")).expect("json");
            if let Err(e) = probe() {
                eprintln!("harness error: seam liveness probe failed: {e}");
                std::process::exit(2);
            }
            let texts: Vec<Arc<str>> = j
                .get("texts")
                .and_then(|x| x.as_arr())
                .expect("texts")
                .iter()
                .map(|t| Arc::from(t.as_str().unwrap_or("")))
                .collect();
            let script = script_from_json(j.get("script").expect("script")).expect("script");
            let failing_step = j.get("failing_step").and_then(|x| x.as_usize()).expect("failing_step");
            let f = Failure { script, texts, failing_step };
            match fails(&f, &base_dir) {
                Some((c, g)) => {
                    let out = failure_json(0, 0, &f, &c, &g, J::Null);
                    println!(
                        "{}",
                        J::obj()
                            .set("reproduced", J::Bool(true))
                            .set("kind", out.get("kind").cloned().unwrap_or(J::Null))
                            .set("diff", out.get("diff").cloned().unwrap_or(J::Null))
                            .to_string()
                    );
                    std::process::exit(1);
                }
                None => {
                    println!("{}", J::obj().set("reproduced", J::Bool(false)).to_string());
                }
            }
        }
        Some("firstcall") => {
            // outcome of the FIRST generate call of a fresh process, under whatever real
            // environment this process was started with (nothing is reset): state that a change
            // initialises lazily, once per process, from the environment or the clock is decided here
            let file = args.get(2).expect("text file");
            let t = std::fs::read_to_string(file).expect("read");
            let th = SimThread::spawn((0, 0));
            let o = match th.call(Cmd::Generate(Arc::from(t.as_str()), 0, 1, 0, 0)) {
                Some(r) => {
                    th.retire();
                    r.outcome
                }
                None => {
                    th.abandon();
                    timeout_outcome()
                }
            };
            println!("{}:{:016x}", o.class, o.digest());
        }
        Some("canonfull") => {
            // canonical outcome of one text in full: class, newline, payload (see canonical_isolated)
            let file = args.get(2).expect("text file");
            let t = std::fs::read_to_string(file).expect("read");
            let c = canonical(&t, &base_dir);
            print!("{}\n{}", c.class, c.payload);
        }
        Some("canon") => {
            // canonical outcome digest of one text (cross-process agreement / uncontrolled-source replay)
            let file = args.get(2).expect("text file");
            let t = std::fs::read_to_string(file).expect("read");
            let c = canonical(&t, &base_dir);
            println!("{}:{:016x}", c.class, c.digest());
        }
        Some("text") => {
            // dump corpus text `--id` (same numbering as the run workers use)
            let seed: u64 = arg_val(&args, "--seed").and_then(|s| s.parse().ok()).unwrap_or(1);
            let id: usize = arg_val(&args, "--id").and_then(|s| s.parse().ok()).unwrap_or(0);
            let repo = arg_val(&args, "--repo").unwrap_or("/repo".into());
            let mut corpus = Corpus::new(&repo, seed, usize::MAX / 2);
            let (t, _, _) = corpus.get(id);
            print!("{}", t);
        }
        Some("show") => {
            let seed: u64 = arg_val(&args, "--seed").and_then(|s| s.parse().ok()).unwrap_or(1);
            let id: u64 = arg_val(&args, "--id").and_then(|s| s.parse().ok()).unwrap_or(0);
            let mut rng = Rng::derive(seed, &[ENGINE_A, 0x7E57, id]);
            let t = texts::ambient_text(&mut rng);
            println!("// category={} planted={}\n{}", t.category, t.planted, t.text);
            let _ = fnv_str("");
        }
        _ => {
            eprintln!("usage: ambient probe | run --seed S --from A --to B --pool P --repo DIR --out FILE --replay-dir DIR [--log FILE] [--budget-s T] | replay FILE | canon FILE | show --seed S --id K");
            std::process::exit(2);
        }
    }
}
