//! Stream editors: turn a sentence into a near-sentence.

use crate::rng::Rng;

pub fn edit(kinds: &mut Vec<usize>, n_terms: usize, other: &[usize], rng: &mut Rng) -> &'static str {
    if n_terms == 0 {
        return "none";
    }
    let n = kinds.len();
    match rng.below(7) {
        0 if n > 0 => {
            let i = rng.below(n);
            kinds[i] = rng.below(n_terms);
            "replace"
        }
        1 if n > 0 => {
            let i = rng.below(n);
            kinds.remove(i);
            "delete"
        }
        2 if n > 0 => {
            let i = rng.below(n);
            let k = kinds[i];
            kinds.insert(i, k);
            "duplicate"
        }
        3 if n > 1 => {
            let i = rng.below(n - 1);
            kinds.swap(i, i + 1);
            "swap"
        }
        4 => {
            let i = rng.below(n + 1);
            kinds.insert(i, rng.below(n_terms));
            "insert"
        }
        5 if !other.is_empty() => {
            // splice: keep a prefix of this one, append a tail of the other
            let a = rng.below(n + 1);
            let b = rng.below(other.len() + 1);
            kinds.truncate(a);
            kinds.extend_from_slice(&other[b..]);
            "splice"
        }
        6 if n > 0 => {
            let a = rng.below(n + 1);
            kinds.truncate(a);
            "truncate"
        }
        _ => {
            let i = rng.below(n + 1);
            kinds.insert(i, rng.below(n_terms));
            "insert"
        }
    }
}
