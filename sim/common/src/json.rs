//! Minimal JSON value with a writer and a parser (no external crates: the
//! per-grammar binaries are built with a bare `rustc`).
//! Objects keep insertion order, so output is deterministic.

#[derive(Clone, Debug, PartialEq)]
pub enum J {
    Null,
    Bool(bool),
    Int(i128),
    Str(String),
    Arr(Vec<J>),
    Obj(Vec<(String, J)>),
}

impl J {
    pub fn obj() -> J {
        J::Obj(vec![])
    }
    pub fn set(mut self, k: &str, v: J) -> J {
        if let J::Obj(ref mut o) = self {
            if let Some(e) = o.iter_mut().find(|(kk, _)| kk == k) {
                e.1 = v;
            } else {
                o.push((k.to_string(), v));
            }
        }
        self
    }
    pub fn put(&mut self, k: &str, v: J) {
        if let J::Obj(ref mut o) = self {
            if let Some(e) = o.iter_mut().find(|(kk, _)| kk == k) {
                e.1 = v;
            } else {
                o.push((k.to_string(), v));
            }
        }
    }
    pub fn get(&self, k: &str) -> Option<&J> {
        match self {
            J::Obj(o) => o.iter().find(|(kk, _)| kk == k).map(|(_, v)| v),
            _ => None,
        }
    }
    pub fn str(s: &str) -> J {
        J::Str(s.to_string())
    }
    pub fn int<T: Into<i128>>(x: T) -> J {
        J::Int(x.into())
    }
    pub fn uz(x: usize) -> J {
        J::Int(x as i128)
    }
    pub fn as_str(&self) -> Option<&str> {
        match self {
            J::Str(s) => Some(s),
            _ => None,
        }
    }
    pub fn as_int(&self) -> Option<i128> {
        match self {
            J::Int(i) => Some(*i),
            _ => None,
        }
    }
    pub fn as_usize(&self) -> Option<usize> {
        self.as_int().map(|i| i as usize)
    }
    pub fn as_u64(&self) -> Option<u64> {
        self.as_int().map(|i| i as u64)
    }
    pub fn as_bool(&self) -> Option<bool> {
        match self {
            J::Bool(b) => Some(*b),
            _ => None,
        }
    }
    pub fn as_arr(&self) -> Option<&[J]> {
        match self {
            J::Arr(a) => Some(a),
            _ => None,
        }
    }
    pub fn is_null(&self) -> bool {
        matches!(self, J::Null)
    }

    pub fn write(&self, out: &mut String) {
        match self {
            J::Null => out.push_str("null"),
            J::Bool(b) => out.push_str(if *b { "true" } else { "false" }),
            J::Int(i) => out.push_str(&i.to_string()),
            J::Str(s) => write_str(s, out),
            J::Arr(a) => {
                out.push('[');
                for (i, x) in a.iter().enumerate() {
                    if i > 0 {
                        out.push(',');
                    }
                    x.write(out);
                }
                out.push(']');
            }
            J::Obj(o) => {
                out.push('{');
                for (i, (k, v)) in o.iter().enumerate() {
                    if i > 0 {
                        out.push(',');
                    }
                    write_str(k, out);
                    out.push(':');
                    v.write(out);
                }
                out.push('}');
            }
        }
    }

    pub fn to_string(&self) -> String {
        let mut s = String::new();
        self.write(&mut s);
        s
    }

    pub fn parse(src: &str) -> Result<J, String> {
        let mut p = P { b: src.as_bytes(), i: 0 };
        p.ws();
        let v = p.value()?;
        p.ws();
        if p.i != p.b.len() {
            return Err(format!("trailing data at {}", p.i));
        }
        Ok(v)
    }
}

fn write_str(s: &str, out: &mut String) {
    out.push('"');
    for c in s.chars() {
        match c {
            '"' => out.push_str("\\\""),
            '\\' => out.push_str("\\\\"),
            '\n' => out.push_str("\\n"),
            '\r' => out.push_str("\\r"),
            '\t' => out.push_str("\\t"),
            c if (c as u32) < 0x20 => out.push_str(&format!("\\u{:04x}", c as u32)),
            c => out.push(c),
        }
    }
    out.push('"');
}

struct P<'a> {
    b: &'a [u8],
    i: usize,
}

impl P<'_> {
    fn ws(&mut self) {
        while self.i < self.b.len() && matches!(self.b[self.i], b' ' | b'\n' | b'\r' | b'\t') {
            self.i += 1;
        }
    }
    fn value(&mut self) -> Result<J, String> {
        self.ws();
        if self.i >= self.b.len() {
            return Err("eof".into());
        }
        match self.b[self.i] {
            b'n' => self.lit("null", J::Null),
            b't' => self.lit("true", J::Bool(true)),
            b'f' => self.lit("false", J::Bool(false)),
            b'"' => Ok(J::Str(self.string()?)),
            b'[' => {
                self.i += 1;
                let mut a = vec![];
                self.ws();
                if self.peek() == Some(b']') {
                    self.i += 1;
                    return Ok(J::Arr(a));
                }
                loop {
                    a.push(self.value()?);
                    self.ws();
                    match self.peek() {
                        Some(b',') => self.i += 1,
                        Some(b']') => {
                            self.i += 1;
                            return Ok(J::Arr(a));
                        }
                        _ => return Err(format!("bad array at {}", self.i)),
                    }
                }
            }
            b'{' => {
                self.i += 1;
                let mut o = vec![];
                self.ws();
                if self.peek() == Some(b'}') {
                    self.i += 1;
                    return Ok(J::Obj(o));
                }
                loop {
                    self.ws();
                    let k = self.string()?;
                    self.ws();
                    if self.peek() != Some(b':') {
                        return Err(format!("expected : at {}", self.i));
                    }
                    self.i += 1;
                    let v = self.value()?;
                    o.push((k, v));
                    self.ws();
                    match self.peek() {
                        Some(b',') => self.i += 1,
                        Some(b'}') => {
                            self.i += 1;
                            return Ok(J::Obj(o));
                        }
                        _ => return Err(format!("bad object at {}", self.i)),
                    }
                }
            }
            b'-' | b'0'..=b'9' => {
                let st = self.i;
                self.i += 1;
                while self.i < self.b.len() && self.b[self.i].is_ascii_digit() {
                    self.i += 1;
                }
                // floats are truncated to their integer part (only produced by other tools)
                let int_end = self.i;
                if self.peek() == Some(b'.') {
                    self.i += 1;
                    while self.i < self.b.len()
                        && (self.b[self.i].is_ascii_digit()
                            || matches!(self.b[self.i], b'e' | b'E' | b'+' | b'-'))
                    {
                        self.i += 1;
                    }
                }
                let s = std::str::from_utf8(&self.b[st..int_end]).unwrap();
                s.parse::<i128>().map(J::Int).map_err(|e| e.to_string())
            }
            c => Err(format!("unexpected byte {} at {}", c, self.i)),
        }
    }
    fn peek(&self) -> Option<u8> {
        self.b.get(self.i).copied()
    }
    fn lit(&mut self, s: &str, v: J) -> Result<J, String> {
        if self.b[self.i..].starts_with(s.as_bytes()) {
            self.i += s.len();
            Ok(v)
        } else {
            Err(format!("bad literal at {}", self.i))
        }
    }
    fn string(&mut self) -> Result<String, String> {
        if self.peek() != Some(b'"') {
            return Err(format!("expected string at {}", self.i));
        }
        self.i += 1;
        let mut out: Vec<u8> = vec![];
        loop {
            let c = *self.b.get(self.i).ok_or("eof in string")?;
            self.i += 1;
            match c {
                b'"' => break,
                b'\\' => {
                    let e = *self.b.get(self.i).ok_or("eof in escape")?;
                    self.i += 1;
                    match e {
                        b'n' => out.push(b'\n'),
                        b'r' => out.push(b'\r'),
                        b't' => out.push(b'\t'),
                        b'b' => out.push(8),
                        b'f' => out.push(12),
                        b'/' => out.push(b'/'),
                        b'\\' => out.push(b'\\'),
                        b'"' => out.push(b'"'),
                        b'u' => {
                            let h = std::str::from_utf8(
                                self.b.get(self.i..self.i + 4).ok_or("eof in \\u")?,
                            )
                            .map_err(|e| e.to_string())?;
                            let mut cp = u32::from_str_radix(h, 16).map_err(|e| e.to_string())?;
                            self.i += 4;
                            if (0xD800..0xDC00).contains(&cp)
                                && self.b.get(self.i) == Some(&b'\\')
                                && self.b.get(self.i + 1) == Some(&b'u')
                            {
                                let h2 = std::str::from_utf8(
                                    self.b.get(self.i + 2..self.i + 6).ok_or("eof in \\u")?,
                                )
                                .map_err(|e| e.to_string())?;
                                let lo = u32::from_str_radix(h2, 16).map_err(|e| e.to_string())?;
                                self.i += 6;
                                cp = 0x10000 + ((cp - 0xD800) << 10) + (lo - 0xDC00);
                            }
                            let ch = char::from_u32(cp).unwrap_or('\u{fffd}');
                            let mut buf = [0u8; 4];
                            out.extend_from_slice(ch.encode_utf8(&mut buf).as_bytes());
                        }
                        _ => return Err("bad escape".into()),
                    }
                }
                c => out.push(c),
            }
        }
        String::from_utf8(out).map_err(|e| e.to_string())
    }
}

#[cfg(test)]
mod tests {
    use super::*;
    #[test]
    fn roundtrip() {
        let v = J::obj()
            .set("a", J::int(1))
            .set("b", J::Arr(vec![J::str("x\n\"y\"\\ é \u{1}"), J::Null, J::Bool(true)]))
            .set("c", J::obj().set("d", J::int(-5)));
        let s = v.to_string();
        assert_eq!(J::parse(&s).unwrap(), v);
    }
}
