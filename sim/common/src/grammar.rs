//! Abstract model of a Kiki grammar file: what the reference recogniser works
//! on, and what the renderer turns into `.kiki` text for the real `generate`.

use crate::json::J;
use crate::rng::Rng;

#[derive(Clone, Copy, Debug, PartialEq, Eq, Hash, PartialOrd, Ord)]
pub enum Sym {
    T(usize),
    N(usize),
}

#[derive(Clone, Debug, PartialEq, Eq)]
pub struct Field {
    pub sym: Sym,
    /// `None` renders as `_: Sym` (a skipped field). For tuple fieldsets a
    /// `Some(_)` name is ignored by the renderer (the field is "used").
    pub name: Option<String>,
}

#[derive(Clone, Copy, Debug, PartialEq, Eq)]
pub enum Shape {
    Empty,
    Named,
    Tuple,
}

#[derive(Clone, Debug, PartialEq, Eq)]
pub struct Variant {
    pub name: String,
    pub shape: Shape,
    pub fields: Vec<Field>,
}

#[derive(Clone, Copy, Debug, PartialEq, Eq)]
pub enum NtKind {
    Struct,
    Enum,
}

#[derive(Clone, Debug, PartialEq, Eq)]
pub struct Nt {
    pub name: String,
    pub kind: NtKind,
    pub attrs: Vec<String>,
    /// A struct has exactly one variant (its name is unused).
    pub variants: Vec<Variant>,
}

#[derive(Clone, Debug, PartialEq, Eq)]
pub struct Term {
    pub name: String,
    pub ty: String,
}

#[derive(Clone, Debug, PartialEq, Eq)]
pub struct Grammar {
    pub family: String,
    pub start: usize,
    pub nts: Vec<Nt>,
    pub terms: Vec<Term>,
    pub token_enum: String,
    pub token_attrs: Vec<String>,
}

#[derive(Clone, Debug, PartialEq, Eq)]
pub struct Rule {
    pub lhs: usize,
    pub rhs: Vec<Sym>,
}

impl Variant {
    pub fn new(name: &str, shape: Shape, fields: Vec<Field>) -> Variant {
        let mut v = Variant { name: name.to_string(), shape, fields };
        v.fix_shape();
        v
    }
    /// `{}` / `()` need at least one field in Kiki, so a zero-field variant is
    /// always rendered as the empty fieldset.
    pub fn fix_shape(&mut self) {
        if self.fields.is_empty() {
            self.shape = Shape::Empty;
        } else if self.shape == Shape::Empty {
            self.shape = Shape::Tuple;
        }
    }
}

impl Grammar {
    /// One rule per struct / enum variant, in declaration order — the declared
    /// grammar (fields written `_:` included).
    pub fn rules(&self) -> Vec<Rule> {
        let mut out = vec![];
        for (i, nt) in self.nts.iter().enumerate() {
            for v in &nt.variants {
                out.push(Rule { lhs: i, rhs: v.fields.iter().map(|f| f.sym).collect() });
            }
        }
        out
    }

    pub fn render(&self, layout: &mut Rng) -> String {
        render(self, layout)
    }

    pub fn render_plain(&self) -> String {
        let mut r = Rng::from_u64(0);
        render_with(self, &mut r, false)
    }

    pub fn size(&self) -> (usize, usize, usize) {
        (self.nts.len(), self.terms.len(), self.rules().len())
    }
}

// ---------------------------------------------------------------- rendering

fn sym_text(g: &Grammar, s: Sym) -> String {
    match s {
        Sym::T(i) => format!("${}", g.terms[i].name),
        Sym::N(i) => g.nts[i].name.clone(),
    }
}

fn render_fieldset(g: &Grammar, v: &Variant, sep: &mut dyn FnMut() -> String) -> String {
    match v.shape {
        Shape::Empty => String::new(),
        Shape::Named => {
            let mut s = String::from(" {");
            for f in &v.fields {
                s.push_str(&sep());
                let n = f.name.clone().unwrap_or_else(|| "_".to_string());
                s.push_str(&format!("{}: {}", n, sym_text(g, f.sym)));
            }
            s.push_str(&sep());
            s.push('}');
            s
        }
        Shape::Tuple => {
            let mut s = String::from("(");
            for f in &v.fields {
                s.push_str(&sep());
                match f.name {
                    Some(_) => s.push_str(&sym_text(g, f.sym)),
                    None => s.push_str(&format!("_: {}", sym_text(g, f.sym))),
                }
            }
            s.push_str(&sep());
            s.push(')');
            s
        }
    }
}

#[derive(Clone, Debug, Default)]
pub struct RenderOpts {
    pub fancy: bool,
    /// raw extra items (declarations) inserted at seeded positions among the items
    pub extras: Vec<String>,
    pub omit_start: bool,
    pub omit_terminal: bool,
}

pub fn render(g: &Grammar, layout: &mut Rng) -> String {
    render_opts(g, layout, &RenderOpts { fancy: true, ..Default::default() })
}

fn render_with(g: &Grammar, layout: &mut Rng, fancy: bool) -> String {
    render_opts(g, layout, &RenderOpts { fancy, ..Default::default() })
}

pub fn render_opts(g: &Grammar, layout: &mut Rng, opts: &RenderOpts) -> String {
    let fancy = opts.fancy;
    // Items: the start declaration, every nonterminal, the terminal enum.
    // Nonterminals keep their relative order (it fixes rule indices).
    let mut items: Vec<String> = vec![];
    let mut lay = layout.clone();
    let mut sep = move || -> String {
        if !fancy {
            return "\n    ".to_string();
        }
        match lay.below(8) {
            0 => " ".to_string(),
            1 => "\n\t".to_string(),
            2 => match lay.below(4) {
                0 => "\n    // é✓ non-ASCII comment\n    ".to_string(),
                1 => "\n    //é\n    ".to_string(),
                _ => "\n    // c\n    ".to_string(),
            },
            _ => "\n    ".to_string(),
        }
    };
    for nt in &g.nts {
        let mut s = String::new();
        for a in &nt.attrs {
            s.push_str(a);
            s.push('\n');
        }
        match nt.kind {
            NtKind::Struct => {
                let v = &nt.variants[0];
                s.push_str(&format!("struct {}{}", nt.name, render_fieldset(g, v, &mut sep)));
            }
            NtKind::Enum => {
                s.push_str(&format!("enum {} {{", nt.name));
                for v in &nt.variants {
                    s.push_str("\n    ");
                    s.push_str(&v.name);
                    s.push_str(&render_fieldset(g, v, &mut sep));
                }
                s.push_str("\n}");
            }
        }
        items.push(s);
    }
    // extras keep the relative order of the real items intact
    for e in &opts.extras {
        let pos = layout.below(items.len() + 1);
        items.insert(pos, e.clone());
    }
    let mut t = String::new();
    for a in &g.token_attrs {
        t.push_str(a);
        t.push('\n');
    }
    t.push_str(&format!("terminal {} {{", g.token_enum));
    for term in &g.terms {
        t.push_str(&format!("\n    ${}: {}", term.name, term.ty));
    }
    t.push_str("\n}");
    let start = format!("start {}", g.nts[g.start].name);

    let n = items.len();
    let (start_pos, term_pos) = if fancy {
        (layout.below(n + 1), layout.below(n + 1))
    } else {
        (0, n)
    };
    let mut out = String::new();
    if fancy && layout.chance(1, 4) {
        out.push_str(if layout.chance(1, 3) { "// état: generated workload grammar ✓\n" } else { "// generated workload grammar\n" });
    }
    for i in 0..=n {
        if i == start_pos && !opts.omit_start {
            out.push_str(&start);
            out.push_str(if fancy && layout.chance(1, 5) { "\r\n\r\n" } else { "\n\n" });
        }
        if i == term_pos && !opts.omit_terminal {
            out.push_str(&t);
            out.push_str("\n\n");
        }
        if i < n {
            out.push_str(&items[i]);
            out.push_str(if fancy && layout.chance(1, 6) { "\n// ---\n\n" } else { "\n\n" });
        }
    }
    out
}

// ----------------------------------------------------------------- analyses

pub struct Analysis {
    pub rules: Vec<Rule>,
    pub rules_of: Vec<Vec<usize>>,
    pub productive: Vec<bool>,
    pub reachable: Vec<bool>,
    pub nullable: Vec<bool>,
    /// minimal derivation height per nonterminal (usize::MAX if unproductive)
    pub height: Vec<usize>,
    /// minimal derivation height per rule
    pub rule_height: Vec<usize>,
}

impl Analysis {
    pub fn new(g: &Grammar) -> Analysis {
        let rules = g.rules();
        let n = g.nts.len();
        let mut rules_of = vec![vec![]; n];
        for (i, r) in rules.iter().enumerate() {
            rules_of[r.lhs].push(i);
        }
        // nullable
        let mut nullable = vec![false; n];
        loop {
            let mut ch = false;
            for r in &rules {
                if !nullable[r.lhs]
                    && r.rhs.iter().all(|s| matches!(s, Sym::N(j) if nullable[*j]))
                {
                    nullable[r.lhs] = true;
                    ch = true;
                }
            }
            if !ch {
                break;
            }
        }
        // heights (also gives productivity)
        let mut height = vec![usize::MAX; n];
        let mut rule_height = vec![usize::MAX; rules.len()];
        loop {
            let mut ch = false;
            for (ri, r) in rules.iter().enumerate() {
                let mut h = 0usize;
                let mut ok = true;
                for s in &r.rhs {
                    if let Sym::N(j) = s {
                        if height[*j] == usize::MAX {
                            ok = false;
                            break;
                        }
                        h = h.max(height[*j]);
                    }
                }
                if ok {
                    let h = h + 1;
                    if h < rule_height[ri] {
                        rule_height[ri] = h;
                        ch = true;
                    }
                    if h < height[r.lhs] {
                        height[r.lhs] = h;
                        ch = true;
                    }
                }
            }
            if !ch {
                break;
            }
        }
        let productive: Vec<bool> = height.iter().map(|h| *h != usize::MAX).collect();
        // reachable
        let mut reachable = vec![false; n];
        let mut stack = vec![g.start];
        reachable[g.start] = true;
        while let Some(a) = stack.pop() {
            for ri in &rules_of[a] {
                for s in &rules[*ri].rhs {
                    if let Sym::N(j) = s {
                        if !reachable[*j] {
                            reachable[*j] = true;
                            stack.push(*j);
                        }
                    }
                }
            }
        }
        Analysis { rules, rules_of, productive, reachable, nullable, height, rule_height }
    }

    pub fn all_productive(&self) -> bool {
        self.productive.iter().all(|p| *p)
    }

    /// Shape features of the grammar, reported as reach probes (which corners of grammar
    /// space the workload actually visited).
    pub fn shape(&self) -> Vec<(&'static str, bool)> {
        let n = self.productive.len();
        // left-corner relation: b can appear leftmost in a string derived from a (through
        // nullable prefixes)
        let mut lc = vec![vec![false; n]; n];
        for r in &self.rules {
            for s in &r.rhs {
                match s {
                    Sym::T(_) => break,
                    Sym::N(b) => {
                        lc[r.lhs][*b] = true;
                        if !self.nullable[*b] {
                            break;
                        }
                    }
                }
            }
        }
        let direct_lr = (0..n).any(|a| lc[a][a]);
        // transitive closure
        let mut tc = lc.clone();
        for k in 0..n {
            for i in 0..n {
                if tc[i][k] {
                    for j in 0..n {
                        if tc[k][j] {
                            tc[i][j] = true;
                        }
                    }
                }
            }
        }
        let indirect_lr = (0..n).any(|a| (0..n).any(|b| b != a && tc[a][b] && tc[b][a]));
        // nullable only through other nonterminals (no empty rule of its own)
        let nullable_via_nt = (0..n).any(|a| {
            self.nullable[a] && !self.rules_of[a].iter().any(|ri| self.rules[*ri].rhs.is_empty())
        });
        // ... and that at depth >= 2
        let via = |a: usize| -> bool {
            self.nullable[a] && !self.rules_of[a].iter().any(|ri| self.rules[*ri].rhs.is_empty())
        };
        let nullable_chain2 = (0..n).any(|a| {
            via(a)
                && self.rules_of[a].iter().any(|ri| {
                    let r = &self.rules[*ri];
                    !r.rhs.is_empty() && r.rhs.iter().all(|s| matches!(s, Sym::N(b) if via(*b)))
                })
        });
        // recursion in the middle of a rule whose first symbol is a nonterminal: A -> B .. A ..
        let nt_prefixed_nesting = self.rules.iter().any(|r| {
            r.rhs.len() >= 2
                && matches!(r.rhs[0], Sym::N(b) if b != r.lhs)
                && r.rhs[1..].iter().any(|s| *s == Sym::N(r.lhs))
        });
        let right_nullable_tail = self.rules.iter().any(|r| {
            r.rhs.len() >= 2 && matches!(r.rhs[r.rhs.len() - 1], Sym::N(b) if self.nullable[b])
        });
        let epsilon_rules = self.rules.iter().filter(|r| r.rhs.is_empty()).count();
        vec![
            ("direct_left_recursion", direct_lr),
            ("indirect_left_recursion", indirect_lr),
            ("nullable_only_through_nonterminals", nullable_via_nt),
            ("nullable_chain_depth_2plus", nullable_chain2),
            ("nonterminal_prefixed_nesting", nt_prefixed_nesting),
            ("nullable_nonterminal_at_rule_end", right_nullable_tail),
            ("two_or_more_epsilon_rules", epsilon_rules >= 2),
            ("unproductive_nonterminal", !self.all_productive()),
            ("unreachable_nonterminal", self.reachable.iter().any(|r| !*r)),
            ("ten_or_more_terminals", false),
        ]
    }

    /// Random derivation from the start symbol with a height budget; falls back
    /// to a minimal-height rule when the budget is exhausted, so it terminates
    /// on every productive grammar. `cap` bounds the sentence length softly:
    /// once exceeded, only minimal rules are used.
    pub fn sample_sentence(&self, start: usize, rng: &mut Rng, budget: usize, cap: usize) -> Vec<usize> {
        let mut out = vec![];
        self.derive(start, rng, budget, cap, &mut out);
        out
    }

    fn derive(&self, nt: usize, rng: &mut Rng, budget: usize, cap: usize, out: &mut Vec<usize>) {
        let cands: Vec<usize> = self.rules_of[nt]
            .iter()
            .copied()
            .filter(|ri| self.rule_height[*ri] != usize::MAX)
            .collect();
        assert!(!cands.is_empty(), "derive on unproductive nonterminal");
        let minimal = *cands.iter().min_by_key(|ri| self.rule_height[**ri]).unwrap();
        let ri = if budget == 0 || out.len() >= cap {
            minimal
        } else {
            let fitting: Vec<usize> =
                cands.iter().copied().filter(|ri| self.rule_height[*ri] <= budget + 1).collect();
            if fitting.is_empty() {
                minimal
            } else {
                *rng.pick(&fitting)
            }
        };
        for s in &self.rules[ri].rhs {
            match s {
                Sym::T(t) => out.push(*t),
                Sym::N(j) => self.derive(*j, rng, budget.saturating_sub(1), cap, out),
            }
        }
    }
}

// --------------------------------------------------------------------- JSON

fn sym_to_j(s: Sym) -> J {
    match s {
        Sym::T(i) => J::Arr(vec![J::str("T"), J::uz(i)]),
        Sym::N(i) => J::Arr(vec![J::str("N"), J::uz(i)]),
    }
}

fn sym_from_j(j: &J) -> Result<Sym, String> {
    let a = j.as_arr().ok_or("sym")?;
    let i = a[1].as_usize().ok_or("sym idx")?;
    match a[0].as_str() {
        Some("T") => Ok(Sym::T(i)),
        Some("N") => Ok(Sym::N(i)),
        _ => Err("sym kind".into()),
    }
}

impl Grammar {
    pub fn to_json(&self) -> J {
        J::obj()
            .set("family", J::str(&self.family))
            .set("start", J::uz(self.start))
            .set("token_enum", J::str(&self.token_enum))
            .set("token_attrs", J::Arr(self.token_attrs.iter().map(|a| J::str(a)).collect()))
            .set(
                "terms",
                J::Arr(
                    self.terms
                        .iter()
                        .map(|t| J::obj().set("name", J::str(&t.name)).set("ty", J::str(&t.ty)))
                        .collect(),
                ),
            )
            .set(
                "nts",
                J::Arr(
                    self.nts
                        .iter()
                        .map(|n| {
                            J::obj()
                                .set("name", J::str(&n.name))
                                .set(
                                    "kind",
                                    J::str(match n.kind {
                                        NtKind::Struct => "struct",
                                        NtKind::Enum => "enum",
                                    }),
                                )
                                .set("attrs", J::Arr(n.attrs.iter().map(|a| J::str(a)).collect()))
                                .set(
                                    "variants",
                                    J::Arr(
                                        n.variants
                                            .iter()
                                            .map(|v| {
                                                J::obj()
                                                    .set("name", J::str(&v.name))
                                                    .set(
                                                        "shape",
                                                        J::str(match v.shape {
                                                            Shape::Empty => "empty",
                                                            Shape::Named => "named",
                                                            Shape::Tuple => "tuple",
                                                        }),
                                                    )
                                                    .set(
                                                        "fields",
                                                        J::Arr(
                                                            v.fields
                                                                .iter()
                                                                .map(|f| {
                                                                    J::obj()
                                                                        .set("sym", sym_to_j(f.sym))
                                                                        .set(
                                                                            "name",
                                                                            match &f.name {
                                                                                Some(n) => J::str(n),
                                                                                None => J::Null,
                                                                            },
                                                                        )
                                                                })
                                                                .collect(),
                                                        ),
                                                    )
                                            })
                                            .collect(),
                                    ),
                                )
                        })
                        .collect(),
                ),
            )
    }

    pub fn from_json(j: &J) -> Result<Grammar, String> {
        let s = |j: &J, k: &str| -> Result<String, String> {
            j.get(k).and_then(|x| x.as_str()).map(|x| x.to_string()).ok_or(format!("missing {k}"))
        };
        let arr = |j: &J, k: &str| -> Result<Vec<J>, String> {
            j.get(k).and_then(|x| x.as_arr()).map(|x| x.to_vec()).ok_or(format!("missing {k}"))
        };
        let mut g = Grammar {
            family: s(j, "family")?,
            start: j.get("start").and_then(|x| x.as_usize()).ok_or("start")?,
            nts: vec![],
            terms: vec![],
            token_enum: s(j, "token_enum")?,
            token_attrs: arr(j, "token_attrs")?
                .iter()
                .map(|a| a.as_str().unwrap_or("").to_string())
                .collect(),
        };
        for t in arr(j, "terms")? {
            g.terms.push(Term { name: s(&t, "name")?, ty: s(&t, "ty")? });
        }
        for n in arr(j, "nts")? {
            let mut nt = Nt {
                name: s(&n, "name")?,
                kind: if s(&n, "kind")? == "struct" { NtKind::Struct } else { NtKind::Enum },
                attrs: arr(&n, "attrs")?.iter().map(|a| a.as_str().unwrap_or("").to_string()).collect(),
                variants: vec![],
            };
            for v in arr(&n, "variants")? {
                let shape = match s(&v, "shape")?.as_str() {
                    "empty" => Shape::Empty,
                    "named" => Shape::Named,
                    _ => Shape::Tuple,
                };
                let mut fields = vec![];
                for f in arr(&v, "fields")? {
                    fields.push(Field {
                        sym: sym_from_j(f.get("sym").ok_or("sym")?)?,
                        name: f.get("name").and_then(|x| x.as_str()).map(|x| x.to_string()),
                    });
                }
                nt.variants.push(Variant { name: s(&v, "name")?, shape, fields });
            }
            g.nts.push(nt);
        }
        Ok(g)
    }
}
