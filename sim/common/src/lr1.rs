//! Second reference model for C03: a canonical LR(1) parser built from the
//! declared grammar (own FIRST computation, own closure/goto, no state
//! merging). Used
//!   * as the oracle on grammars with unproductive nonterminals, where C03
//!     defines the reported index as "the one at which a canonical LR(1) parser
//!     of the grammar stops";
//!   * as a cross-check of the Earley reference on fully productive grammars
//!     (both must give the same verdict; a disagreement is a harness error);
//!   * as a source of long viable prefixes (random walks over the automaton).

use crate::earley::Verdict;
use crate::grammar::{Grammar, Rule, Sym};
use crate::rng::Rng;
use std::collections::{BTreeMap, BTreeSet};

#[derive(Clone, Copy, Debug, PartialEq, Eq)]
enum Act {
    Shift(usize),
    Reduce(usize),
    Accept,
}

#[derive(Clone, Copy, Debug, PartialEq, Eq, PartialOrd, Ord)]
struct Item {
    rule: u32,
    dot: u32,
    la: u32, // terminal index, or n_terms for end of input
}

pub struct Lr1 {
    rules: Vec<Rule>, // rule 0: S' -> S (lhs = n_nts)
    n_terms: usize,
    action: Vec<BTreeMap<usize, Act>>,
    goto: Vec<BTreeMap<usize, usize>>,
    pub conflicts: usize,
}

pub enum BuildErr {
    TooManyStates(usize),
}

impl Lr1 {
    pub fn states(&self) -> usize {
        self.action.len()
    }

    pub fn build(g: &Grammar, max_states: usize) -> Result<Lr1, BuildErr> {
        let n = g.nts.len();
        let t = g.terms.len();
        let mut rules = vec![Rule { lhs: n, rhs: vec![Sym::N(g.start)] }];
        rules.extend(g.rules());
        let mut rules_of: Vec<Vec<usize>> = vec![vec![]; n + 1];
        for (i, r) in rules.iter().enumerate() {
            rules_of[r.lhs].push(i);
        }
        // nullable / FIRST by plain fixpoint (unproductive nonterminals end up with an
        // empty FIRST set and not nullable)
        let mut nullable = vec![false; n + 1];
        let mut first: Vec<BTreeSet<usize>> = vec![BTreeSet::new(); n + 1];
        loop {
            let mut ch = false;
            for r in &rules {
                let mut all_nullable = true;
                for s in &r.rhs {
                    match s {
                        Sym::T(x) => {
                            if first[r.lhs].insert(*x) {
                                ch = true;
                            }
                            all_nullable = false;
                            break;
                        }
                        Sym::N(b) => {
                            let add: Vec<usize> = first[*b].iter().copied().collect();
                            for x in add {
                                if first[r.lhs].insert(x) {
                                    ch = true;
                                }
                            }
                            if !nullable[*b] {
                                all_nullable = false;
                                break;
                            }
                        }
                    }
                }
                if all_nullable && !nullable[r.lhs] {
                    nullable[r.lhs] = true;
                    ch = true;
                }
            }
            if !ch {
                break;
            }
        }
        let first_of_seq = |seq: &[Sym], la: u32| -> BTreeSet<u32> {
            let mut out = BTreeSet::new();
            for s in seq {
                match s {
                    Sym::T(x) => {
                        out.insert(*x as u32);
                        return out;
                    }
                    Sym::N(b) => {
                        for x in &first[*b] {
                            out.insert(*x as u32);
                        }
                        if !nullable[*b] {
                            return out;
                        }
                    }
                }
            }
            out.insert(la);
            out
        };
        let closure = |kernel: &BTreeSet<Item>| -> BTreeSet<Item> {
            let mut set = kernel.clone();
            let mut work: Vec<Item> = kernel.iter().copied().collect();
            while let Some(it) = work.pop() {
                let r = &rules[it.rule as usize];
                if let Some(Sym::N(b)) = r.rhs.get(it.dot as usize) {
                    let las = first_of_seq(&r.rhs[it.dot as usize + 1..], it.la);
                    for ri in &rules_of[*b] {
                        for la in &las {
                            let ni = Item { rule: *ri as u32, dot: 0, la: *la };
                            if set.insert(ni) {
                                work.push(ni);
                            }
                        }
                    }
                }
            }
            set
        };
        let mut index: BTreeMap<BTreeSet<Item>, usize> = BTreeMap::new();
        let mut states: Vec<BTreeSet<Item>> = vec![];
        let start: BTreeSet<Item> = [Item { rule: 0, dot: 0, la: t as u32 }].into_iter().collect();
        let s0 = closure(&start);
        index.insert(s0.clone(), 0);
        states.push(s0);
        let mut action: Vec<BTreeMap<usize, Act>> = vec![BTreeMap::new()];
        let mut goto: Vec<BTreeMap<usize, usize>> = vec![BTreeMap::new()];
        let mut conflicts = 0usize;
        let mut i = 0;
        while i < states.len() {
            let st = states[i].clone();
            // group kernels by next symbol
            let mut by_sym: BTreeMap<Sym, BTreeSet<Item>> = BTreeMap::new();
            for it in &st {
                let r = &rules[it.rule as usize];
                if let Some(s) = r.rhs.get(it.dot as usize) {
                    by_sym.entry(*s).or_default().insert(Item { rule: it.rule, dot: it.dot + 1, la: it.la });
                }
            }
            for (s, kernel) in by_sym {
                let c = closure(&kernel);
                let j = match index.get(&c) {
                    Some(j) => *j,
                    None => {
                        let j = states.len();
                        if j >= max_states {
                            return Err(BuildErr::TooManyStates(j));
                        }
                        index.insert(c.clone(), j);
                        states.push(c);
                        action.push(BTreeMap::new());
                        goto.push(BTreeMap::new());
                        j
                    }
                };
                match s {
                    Sym::T(x) => {
                        let new = Act::Shift(j);
                        if let Some(old) = action[i].insert(x, new) {
                            if old != new {
                                conflicts += 1;
                            }
                        }
                    }
                    Sym::N(b) => {
                        goto[i].insert(b, j);
                    }
                }
            }
            for it in &st {
                let r = &rules[it.rule as usize];
                if it.dot as usize == r.rhs.len() {
                    let new = if it.rule == 0 { Act::Accept } else { Act::Reduce(it.rule as usize) };
                    if let Some(old) = action[i].get(&(it.la as usize)) {
                        if *old != new {
                            conflicts += 1;
                        }
                    } else {
                        action[i].insert(it.la as usize, new);
                    }
                }
            }
            i += 1;
        }
        Ok(Lr1 { rules, n_terms: t, action, goto, conflicts })
    }

    /// Feeds `tok` (a terminal index or n_terms for end of input) to the stack.
    /// Returns Some(true) on accept, Some(false) after a shift, None on error.
    fn step(&self, stack: &mut Vec<usize>, tok: usize) -> Option<bool> {
        loop {
            let st = *stack.last().unwrap();
            match self.action[st].get(&tok) {
                None => return None,
                Some(Act::Accept) => return Some(true),
                Some(Act::Shift(j)) => {
                    stack.push(*j);
                    return Some(false);
                }
                Some(Act::Reduce(r)) => {
                    let rule = &self.rules[*r];
                    let len = rule.rhs.len();
                    stack.truncate(stack.len() - len);
                    let top = *stack.last().unwrap();
                    match self.goto[top].get(&rule.lhs) {
                        Some(j) => stack.push(*j),
                        None => return None,
                    }
                }
            }
        }
    }

    /// Where a canonical LR(1) parser stops: `first_bad = Some(i)` if it reports
    /// an error with token i as lookahead, `None` with `sentence = false` if it
    /// reports the error at the end of input.
    pub fn judge(&self, kinds: &[usize]) -> Verdict {
        let mut stack = vec![0usize];
        for (i, k) in kinds.iter().enumerate() {
            if self.step(&mut stack, *k).is_none() {
                return Verdict { sentence: false, first_bad: Some(i) };
            }
        }
        match self.step(&mut stack, self.n_terms) {
            Some(true) => Verdict { sentence: true, first_bad: None },
            _ => Verdict { sentence: false, first_bad: None },
        }
    }

    /// Random walk: a token string of at most `len` kinds on which the canonical
    /// parser does not report an error (a viable prefix in the LR sense).
    pub fn walk(&self, rng: &mut Rng, len: usize) -> Vec<usize> {
        let mut out = vec![];
        let mut stack = vec![0usize];
        for _ in 0..len {
            let mut ok: Vec<(usize, Vec<usize>)> = vec![];
            for t in 0..self.n_terms {
                let mut s = stack.clone();
                if self.step(&mut s, t).is_some() {
                    ok.push((t, s));
                }
            }
            if ok.is_empty() {
                break;
            }
            let k = rng.below(ok.len());
            let (t, s) = ok.swap_remove(k);
            out.push(t);
            stack = s;
        }
        out
    }
}
