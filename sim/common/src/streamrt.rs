//! Engine B runtime: the simulated token producer, the event log, the
//! monitors (oracles O1-O4, O7), the in-process minimiser and the `main` of
//! every per-grammar binary.
//!
//! The per-grammar binary consists of the *unmodified* text returned by
//! `kiki::generate`, a generated `glue.rs` (token constructor / inspector and
//! a call of the emitted `parse`) and this module.

use crate::earley::{Earley, Fixpoint, Verdict};
use crate::edits;
use crate::grammar::{Analysis, Grammar};
use crate::json::J;
use crate::rng::{Fnv, Rng};
use std::cell::RefCell;
use std::panic::{catch_unwind, AssertUnwindSafe};
use std::sync::atomic::{AtomicBool, AtomicU64, Ordering};
use std::sync::Mutex;

pub const ENGINE_B: u64 = 0xB;

// ------------------------------------------------------------------ payload

/// Payload of every terminal of every workload grammar. Deliberately no
/// derives at all (C03 must hold without any trait on payload types).
pub struct Tok {
    pub id: u64,
}

impl Drop for Tok {
    fn drop(&mut self) {
        ev(Ev::Drop(self.id));
    }
}

#[derive(Clone, Debug, PartialEq, Eq)]
pub enum Ev {
    IntoIter,
    SizeHint,
    Pull(usize),
    Yield { pos: usize, kind: usize, id: u64 },
    YieldAfterEnd { kind: usize, id: u64 },
    End,
    NoneAfterEnd,
    ProducerPanic(usize),
    ProducerDropped,
    Drop(u64),
    ParseReturned,
    ResultDropped,
}

thread_local! {
    static LOG: RefCell<Vec<Ev>> = RefCell::new(Vec::new());
}

fn ev(e: Ev) {
    let _ = LOG.try_with(|l| {
        if let Ok(mut l) = l.try_borrow_mut() {
            l.push(e);
        }
    });
}

fn take_log() -> Vec<Ev> {
    LOG.with(|l| std::mem::take(&mut *l.borrow_mut()))
}

// --------------------------------------------------------------------- plan

#[derive(Clone, Copy, Debug, PartialEq, Eq)]
pub enum Hint {
    Default,
    Exact,
    LowerOnly,
    UpperLoose,
}

impl Hint {
    fn name(self) -> &'static str {
        match self {
            Hint::Default => "default",
            Hint::Exact => "exact",
            Hint::LowerOnly => "lower_only",
            Hint::UpperLoose => "upper_loose",
        }
    }
    fn from_name(s: &str) -> Hint {
        match s {
            "exact" => Hint::Exact,
            "lower_only" => Hint::LowerOnly,
            "upper_loose" => Hint::UpperLoose,
            _ => Hint::Default,
        }
    }
}

/// One simulated run, fully explicit (a replay never needs the PRNG).
#[derive(Clone, Debug, PartialEq, Eq)]
pub struct Plan {
    /// planned token kinds (workload)
    pub kinds: Vec<usize>,
    /// fault: the stream ends after this many tokens (an end of input at an arbitrary instant)
    pub eof_at: Option<usize>,
    /// fault: the producer is not fused; pulled again after `None` it yields these
    pub resume: Vec<usize>,
    /// fault: the k-th pull (1-based) panics (producer crash / tripwire)
    pub panic_at: Option<usize>,
    /// which (truthful) `size_hint` the producer reports
    pub hint: Hint,
}

impl Plan {
    pub fn effective(&self) -> &[usize] {
        match self.eof_at {
            Some(k) => &self.kinds[..k.min(self.kinds.len())],
            None => &self.kinds,
        }
    }
    pub fn is_fault_free(&self) -> bool {
        self.eof_at.is_none() && self.resume.is_empty() && self.panic_at.is_none()
    }
    pub fn to_json(&self) -> J {
        J::obj()
            .set("kinds", J::Arr(self.kinds.iter().map(|k| J::uz(*k)).collect()))
            .set("eof_at", self.eof_at.map(J::uz).unwrap_or(J::Null))
            .set("resume", J::Arr(self.resume.iter().map(|k| J::uz(*k)).collect()))
            .set("panic_at", self.panic_at.map(J::uz).unwrap_or(J::Null))
            .set("hint", J::str(self.hint.name()))
    }
    pub fn from_json(j: &J) -> Result<Plan, String> {
        let arr = |k: &str| -> Result<Vec<usize>, String> {
            Ok(j.get(k)
                .and_then(|x| x.as_arr())
                .ok_or(format!("plan.{k}"))?
                .iter()
                .filter_map(|x| x.as_usize())
                .collect())
        };
        Ok(Plan {
            kinds: arr("kinds")?,
            eof_at: j.get("eof_at").and_then(|x| x.as_usize()),
            resume: arr("resume")?,
            panic_at: j.get("panic_at").and_then(|x| x.as_usize()),
            hint: Hint::from_name(j.get("hint").and_then(|x| x.as_str()).unwrap_or("default")),
        })
    }
    fn digest(&self) -> u64 {
        let mut f = Fnv::new();
        f.str(&self.to_json().to_string());
        f.0
    }
}

// ----------------------------------------------------------------- producer

pub struct ProducerCrash(pub usize);

pub struct SimStream {
    s: Vec<usize>,
    resume: Vec<usize>,
    panic_at: Option<usize>,
    hint: Hint,
    pos: usize,
    rpos: usize,
    pub pulls: usize,
    pub ended: bool,
    pub pulls_after_end: usize,
    next_id: u64,
    /// (kind, id) of the token delivered for position i of the effective stream
    pub delivered: Vec<(usize, u64)>,
}

impl SimStream {
    pub fn new(plan: &Plan) -> SimStream {
        SimStream {
            s: plan.effective().to_vec(),
            resume: plan.resume.clone(),
            panic_at: plan.panic_at,
            hint: plan.hint,
            pos: 0,
            rpos: 0,
            pulls: 0,
            ended: false,
            pulls_after_end: 0,
            next_id: 1,
            delivered: vec![],
        }
    }

    pub fn pull(&mut self) -> Option<(usize, Tok)> {
        self.pulls += 1;
        ev(Ev::Pull(self.pulls));
        if self.panic_at == Some(self.pulls) {
            ev(Ev::ProducerPanic(self.pulls));
            std::panic::panic_any(ProducerCrash(self.pulls));
        }
        if !self.ended {
            if self.pos < self.s.len() {
                let kind = self.s[self.pos];
                let id = self.next_id;
                self.next_id += 1;
                ev(Ev::Yield { pos: self.pos, kind, id });
                self.delivered.push((kind, id));
                self.pos += 1;
                return Some((kind, Tok { id }));
            }
            self.ended = true;
            ev(Ev::End);
            return None;
        }
        self.pulls_after_end += 1;
        if self.rpos < self.resume.len() {
            let kind = self.resume[self.rpos];
            self.rpos += 1;
            let id = self.next_id;
            self.next_id += 1;
            ev(Ev::YieldAfterEnd { kind, id });
            return Some((kind, Tok { id }));
        }
        ev(Ev::NoneAfterEnd);
        None
    }

    pub fn size_hint(&self) -> (usize, Option<usize>) {
        ev(Ev::SizeHint);
        let rem = if self.ended { 0 } else { self.s.len() - self.pos };
        match self.hint {
            Hint::Default => (0, None),
            Hint::Exact => (rem, Some(rem)),
            Hint::LowerOnly => (rem, None),
            Hint::UpperLoose => (0, Some(rem + 3)),
        }
    }
}

/// What the glue hands to the emitted `parse`: an `IntoIterator`, not an
/// iterator, whose iterator pulls lazily from the simulated producer.
pub struct SimSource<'a, K> {
    pub stream: &'a mut SimStream,
    pub mk: fn(usize, Tok) -> K,
}

pub struct SimIter<'a, K> {
    stream: &'a mut SimStream,
    mk: fn(usize, Tok) -> K,
}

impl<'a, K> IntoIterator for SimSource<'a, K> {
    type Item = K;
    type IntoIter = SimIter<'a, K>;
    fn into_iter(self) -> SimIter<'a, K> {
        ev(Ev::IntoIter);
        SimIter { stream: self.stream, mk: self.mk }
    }
}

impl<K> Iterator for SimIter<'_, K> {
    type Item = K;
    fn next(&mut self) -> Option<K> {
        let mk = self.mk;
        self.stream.pull().map(|(k, t)| mk(k, t))
    }
    fn size_hint(&self) -> (usize, Option<usize>) {
        self.stream.size_hint()
    }
}

impl<K> Drop for SimIter<'_, K> {
    fn drop(&mut self) {
        ev(Ev::ProducerDropped);
    }
}

// --------------------------------------------------------------------- glue

pub trait Held {}
impl<T> Held for T {}

pub enum Outcome {
    Ok(Box<dyn Held>),
    ErrSome { kind: usize, id: u64, tok: Box<dyn Held> },
    ErrNone,
}

pub struct Glue {
    pub model_json: &'static str,
    pub src_kiki: &'static str,
    pub run_parse: fn(&mut SimStream) -> Outcome,
}

// ---------------------------------------------------------------- execution

#[derive(Clone, Debug, PartialEq, Eq)]
pub enum Tag {
    Ok,
    ErrSome { kind: usize, id: u64 },
    ErrNone,
    ProducerPanic(usize),
    OtherPanic(String),
}

impl Tag {
    pub fn to_json(&self) -> J {
        match self {
            Tag::Ok => J::str("Ok"),
            Tag::ErrSome { kind, id } => {
                J::obj().set("Err(Some)", J::obj().set("kind", J::uz(*kind)).set("id", J::Int(*id as i128)))
            }
            Tag::ErrNone => J::str("Err(None)"),
            Tag::ProducerPanic(k) => J::obj().set("producer_panic_propagated_from_pull", J::uz(*k)),
            Tag::OtherPanic(m) => J::obj().set("panic", J::str(m)),
        }
    }
}

pub struct Exec {
    pub tag: Tag,
    pub events: Vec<Ev>,
    pub pulls: usize,
    pub pulls_after_end: usize,
    pub delivered: Vec<(usize, u64)>,
    pub size_hint_calls: usize,
    pub leaked: usize,
    pub producer_dropped: bool,
}

static WATCH_PROGRESS: AtomicU64 = AtomicU64::new(0);
static WATCH_IN_RUN: AtomicBool = AtomicBool::new(false);
static WATCH_PLAN: Mutex<Option<String>> = Mutex::new(None);

pub fn execute(glue: &Glue, plan: &Plan) -> Exec {
    let _ = take_log();
    {
        *WATCH_PLAN.lock().unwrap() = Some(plan.to_json().to_string());
    }
    WATCH_PROGRESS.fetch_add(1, Ordering::SeqCst);
    WATCH_IN_RUN.store(true, Ordering::SeqCst);
    let mut stream = SimStream::new(plan);
    let r = catch_unwind(AssertUnwindSafe(|| (glue.run_parse)(&mut stream)));
    WATCH_IN_RUN.store(false, Ordering::SeqCst);
    ev(Ev::ParseReturned);
    let (tag, held): (Tag, Option<Box<dyn Held>>) = match r {
        Ok(Outcome::Ok(t)) => (Tag::Ok, Some(t)),
        Ok(Outcome::ErrSome { kind, id, tok }) => (Tag::ErrSome { kind, id }, Some(tok)),
        Ok(Outcome::ErrNone) => (Tag::ErrNone, None),
        Err(p) => {
            if let Some(c) = p.downcast_ref::<ProducerCrash>() {
                (Tag::ProducerPanic(c.0), None)
            } else if let Some(s) = p.downcast_ref::<String>() {
                (Tag::OtherPanic(s.clone()), None)
            } else if let Some(s) = p.downcast_ref::<&str>() {
                (Tag::OtherPanic(s.to_string()), None)
            } else {
                (Tag::OtherPanic("<non-string payload>".into()), None)
            }
        }
    };
    drop(held);
    ev(Ev::ResultDropped);
    let events = take_log();
    let mut yielded = 0usize;
    let mut dropped = 0usize;
    let mut size_hint_calls = 0usize;
    let mut producer_dropped = false;
    for e in &events {
        match e {
            Ev::Yield { .. } | Ev::YieldAfterEnd { .. } => yielded += 1,
            Ev::Drop(_) => dropped += 1,
            Ev::SizeHint => size_hint_calls += 1,
            Ev::ProducerDropped => producer_dropped = true,
            _ => {}
        }
    }
    Exec {
        tag,
        pulls: stream.pulls,
        pulls_after_end: stream.pulls_after_end,
        delivered: stream.delivered.clone(),
        events,
        size_hint_calls,
        leaked: yielded.saturating_sub(dropped),
        producer_dropped,
    }
}

// ------------------------------------------------------------------ oracles

#[derive(Clone, Debug, PartialEq, Eq)]
pub struct Violation {
    /// O1 accepted-a-non-sentence | O2 wrong-offender | O3 wrong-at-end |
    /// O4 over-pull | O4 pull-after-end | panic
    pub class: &'static str,
    pub detail: String,
}

#[derive(Default, Clone, Debug)]
pub struct Notes {
    /// observations outside C03 (sentences, leaks, swallowed producer panics)
    pub sentence_rejected: usize,
    pub sentence_overpull: usize,
    pub sentence_panic: usize,
    pub leaked_tokens: usize,
    pub producer_not_dropped: usize,
    pub producer_panic_swallowed: usize,
    pub producer_panic_propagated: usize,
    pub underpull_correct_result: usize,
}

/// Number of pulls a correct parser needs: tokens 0..=first_bad, or all n
/// tokens and the end-of-input `None`.
pub fn needed_pulls(v: &Verdict, n: usize) -> usize {
    match v.first_bad {
        Some(i) => i + 1,
        None => n + 1,
    }
}

pub fn check(plan: &Plan, v: &Verdict, x: &Exec, notes: &mut Notes) -> Option<Violation> {
    let s = plan.effective();
    let n = s.len();
    let needed = needed_pulls(v, n);
    if x.leaked > 0 {
        notes.leaked_tokens += 1;
    }
    if !x.producer_dropped {
        notes.producer_not_dropped += 1;
    }
    // Producer crash reached legitimately: nothing in C03 says what must happen.
    if let Some(p) = plan.panic_at {
        if p <= needed {
            match &x.tag {
                Tag::ProducerPanic(_) => notes.producer_panic_propagated += 1,
                _ => notes.producer_panic_swallowed += 1,
            }
            return None;
        }
    }
    if v.sentence {
        // C03 is silent on sentences (C01/C02 territory): observations only.
        match &x.tag {
            Tag::Ok => {}
            Tag::OtherPanic(_) | Tag::ProducerPanic(_) => notes.sentence_panic += 1,
            _ => notes.sentence_rejected += 1,
        }
        if x.pulls > needed {
            notes.sentence_overpull += 1;
        }
        return None;
    }
    // ---- s is not a sentence: C03 applies
    if let Tag::ProducerPanic(k) = &x.tag {
        // the tripwire beyond the reported token was hit: over-pull made visible
        return Some(Violation {
            class: "O4-overpull",
            detail: format!(
                "parser pulled item #{k} (tripwire) although the verdict is decidable after {needed} pulls"
            ),
        });
    }
    if let Tag::OtherPanic(m) = &x.tag {
        return Some(Violation { class: "panic", detail: format!("parse panicked on a non-sentence: {m}") });
    }
    if let Tag::Ok = &x.tag {
        return Some(Violation {
            class: "O1-accepted-non-sentence",
            detail: format!("parse returned Ok for a non-sentence (first_bad={:?}, n={n})", v.first_bad),
        });
    }
    match v.first_bad {
        Some(i) => match &x.tag {
            Tag::ErrSome { kind, id } => {
                let want = x.delivered.get(i).copied();
                if want != Some((*kind, *id)) {
                    let at = x.delivered.iter().position(|(_, d)| d == id);
                    let wanted = match want {
                        Some((ek, eid)) => format!("kind {ek}, id {eid}"),
                        None => format!("kind {}, never pulled", s[i]),
                    };
                    return Some(Violation {
                        class: "O2-wrong-offender",
                        detail: format!(
                            "expected the token delivered for index {i} ({wanted}); got kind {kind}, id {id} (the object delivered for index {at:?})"
                        ),
                    });
                }
            }
            other => {
                return Some(Violation {
                    class: "O2-wrong-offender",
                    detail: format!("expected Err(Some(token at index {i})); got {}", other.to_json().to_string()),
                })
            }
        },
        None => {
            if x.tag != Tag::ErrNone {
                return Some(Violation {
                    class: "O3-wrong-at-end",
                    detail: format!(
                        "input is a proper prefix of a sentence: expected Err(None); got {}",
                        x.tag.to_json().to_string()
                    ),
                });
            }
        }
    }
    if x.pulls_after_end > 0 {
        return Some(Violation {
            class: "O4-pull-after-end",
            detail: format!("{} pull(s) issued after the producer had returned None", x.pulls_after_end),
        });
    }
    if x.pulls > needed {
        return Some(Violation {
            class: "O4-overpull",
            detail: format!("{} pulls issued; the reported token is item #{needed}", x.pulls),
        });
    }
    if x.pulls < needed {
        notes.underpull_correct_result += 1;
    }
    None
}

// -------------------------------------------------------------- minimiser

fn normalise(mut p: Plan) -> Plan {
    if let Some(k) = p.eof_at {
        if k >= p.kinds.len() {
            p.eof_at = None;
        }
    }
    p
}

/// Delta debugging over the explicit plan; accepts a candidate only if the
/// same violation class persists (re-evaluating the reference on each one).
pub fn shrink(glue: &Glue, earley: &Earley, plan: &Plan, class: &str, budget: usize) -> (Plan, usize) {
    let mut best = normalise(plan.clone());
    let mut steps = 0usize;
    let still = |p: &Plan, steps: &mut usize| -> bool {
        *steps += 1;
        let v = earley.judge(p.effective());
        let x = execute(glue, p);
        let mut notes = Notes::default();
        matches!(check(p, &v, &x, &mut notes), Some(viol) if viol.class == class)
    };
    // 1. drop fault kinds one at a time
    let simplifiers: [fn(&Plan) -> Plan; 4] = [
        |p| {
            let mut t = p.clone();
            t.hint = Hint::Default;
            t
        },
        |p| {
            let mut t = p.clone();
            t.resume.clear();
            t
        },
        |p| {
            let mut t = p.clone();
            t.panic_at = None;
            t
        },
        |p| {
            // materialise the early end: same stream, no fault label
            let mut t = p.clone();
            t.kinds = t.effective().to_vec();
            t.eof_at = None;
            t
        },
    ];
    for f in simplifiers.iter() {
        let t = f(&best);
        if t != best && steps < budget && still(&t, &mut steps) {
            best = t;
        }
    }
    // 2. ddmin over the planned kinds
    let mut chunk = (best.kinds.len() / 2).max(1);
    while chunk >= 1 && steps < budget {
        let mut i = 0;
        let mut progressed = false;
        while i < best.kinds.len() && steps < budget {
            let end = (i + chunk).min(best.kinds.len());
            let mut t = best.clone();
            t.kinds.drain(i..end);
            if let Some(k) = t.eof_at {
                let removed_before = end.min(k).saturating_sub(i.min(k));
                t.eof_at = Some(k - removed_before);
            }
            if let Some(p) = t.panic_at {
                let removed_before = end.min(p.saturating_sub(1)).saturating_sub(i.min(p.saturating_sub(1)));
                t.panic_at = Some((p - removed_before).max(1));
            }
            let t = normalise(t);
            if still(&t, &mut steps) {
                best = t;
                progressed = true;
            } else {
                i += chunk;
            }
        }
        if chunk == 1 && !progressed {
            break;
        }
        if chunk > 1 {
            chunk /= 2;
        } else if !progressed {
            break;
        }
    }
    // 3. shorten the resume tail
    while !best.resume.is_empty() && steps < budget {
        let mut t = best.clone();
        t.resume.pop();
        if still(&t, &mut steps) {
            best = t;
        } else {
            break;
        }
    }
    (best, steps)
}

// --------------------------------------------------------------- plan maker

pub struct Workload<'a> {
    pub g: &'a Grammar,
    pub an: &'a Analysis,
    pub earley: &'a Earley,
    pub maxlen: usize,
}

pub struct Drawn {
    pub plan: Plan,
    pub origin: &'static str,
    pub edits: Vec<&'static str>,
}

impl Workload<'_> {
    pub fn draw(&self, rng: &mut Rng, faulty: bool) -> Drawn {
        let nt = self.g.terms.len();
        let mut edits_applied = vec![];
        let origin;
        let mut kinds: Vec<usize>;
        let which = rng.weighted(&[10, 2, 2]);
        if which == 0 || nt == 0 {
            origin = "derivation";
            let budget = rng.range(2, 12);
            let cap = rng.range(self.maxlen.max(2) / 2, self.maxlen.max(2));
            kinds = self.an.sample_sentence(self.g.start, rng, budget, cap);
            let other = if rng.chance(1, 3) {
                { let b = rng.range(1, 6); self.an.sample_sentence(self.g.start, rng, b, cap) }
            } else {
                vec![]
            };
            let n_edits = rng.weighted(&[3, 6, 2, 1]);
            for _ in 0..n_edits {
                edits_applied.push(edits::edit(&mut kinds, nt, &other, rng));
            }
        } else if which == 1 {
            origin = "random";
            let len = rng.range(0, 8);
            kinds = (0..len).map(|_| rng.below(nt)).collect();
        } else {
            origin = "prefix";
            let cap = rng.range(1, self.maxlen.max(1));
            let b = rng.range(1, 9);
            kinds = self.an.sample_sentence(self.g.start, rng, b, cap);
            let k = rng.below(kinds.len() + 1);
            kinds.truncate(k);
        }
        kinds.truncate(self.maxlen);
        let mut plan = Plan { kinds, eof_at: None, resume: vec![], panic_at: None, hint: Hint::Default };
        plan.hint = *rng.pick(&[Hint::Default, Hint::Default, Hint::Exact, Hint::LowerOnly, Hint::UpperLoose]);
        if faulty {
            let n = plan.kinds.len();
            // swarm: each run enables its own subset of fault kinds
            let en_eof = rng.chance(1, 2);
            let en_resume = rng.chance(1, 2);
            let en_panic = rng.chance(1, 2);
            if en_eof && n > 0 {
                // bias: k = 0, k right before the first offender, uniform
                let k = match rng.below(10) {
                    0 => 0,
                    1..=3 => {
                        let v = self.earley.judge(&plan.kinds);
                        v.first_bad.unwrap_or(n).min(n)
                    }
                    _ => rng.below(n + 1),
                };
                if k < n {
                    plan.eof_at = Some(k);
                }
            }
            if en_resume && nt > 0 {
                let len = rng.range(1, 4);
                // bias: resume with exactly what was cut off, so that a parser that
                // polls again after None sees a plausible continuation
                if let (Some(k), true) = (plan.eof_at, rng.chance(1, 2)) {
                    plan.resume = plan.kinds[k..].iter().copied().take(6).collect();
                }
                if plan.resume.is_empty() {
                    plan.resume = (0..len).map(|_| rng.below(nt)).collect();
                }
            }
            if en_panic {
                let v = self.earley.judge(plan.effective());
                let needed = needed_pulls(&v, plan.effective().len());
                plan.panic_at = Some(match rng.below(4) {
                    0 | 1 => needed + 1, // tripwire right behind the reported token
                    2 => needed + 2,
                    _ => rng.range(1, needed + 2),
                });
            }
        }
        Drawn { plan, origin, edits: edits_applied }
    }
}

// --------------------------------------------------------------------- main

fn usage() -> ! {
    eprintln!("usage: <bin> run --seed S --item K --faultfree N --faulty M --maxlen L --out FILE | replay FILE | shrink FILE CLASS");
    std::process::exit(2);
}

fn arg_val(args: &[String], name: &str) -> Option<String> {
    args.iter().position(|a| a == name).and_then(|i| args.get(i + 1)).cloned()
}

fn start_watchdog(out_path: Option<String>) {
    std::thread::spawn(move || {
        let mut last = WATCH_PROGRESS.load(Ordering::SeqCst);
        let mut stale = 0u32;
        loop {
            std::thread::sleep(std::time::Duration::from_millis(500));
            let cur = WATCH_PROGRESS.load(Ordering::SeqCst);
            if cur == last && WATCH_IN_RUN.load(Ordering::SeqCst) {
                stale += 1;
            } else {
                stale = 0;
                last = cur;
            }
            if stale >= 20 {
                let plan = WATCH_PLAN.lock().map(|p| p.clone()).ok().flatten().unwrap_or_default();
                let j = J::obj().set("hang", J::Bool(true)).set("plan_json", J::str(&plan));
                if let Some(p) = &out_path {
                    let _ = std::fs::write(format!("{p}.hang"), j.to_string());
                }
                println!("HANG {}", j.to_string());
                std::process::exit(3);
            }
        }
    });
}

fn self_check(g: &Grammar, an: &Analysis, earley: &Earley, seed: u64, item: u64) -> Result<usize, String> {
    let mut rng = Rng::derive(seed, &[ENGINE_B, item, 0xC0FFEE]);
    let mut done = 0;
    // (1) every derived sentence is recognised
    for _ in 0..40 {
        let budget = rng.range(1, 7);
        let s = an.sample_sentence(g.start, &mut rng, budget, 48);
        let v = earley.judge(&s);
        if !v.sentence {
            return Err(format!("reference model rejects a derived sentence {:?}: {:?}", s, v));
        }
        done += 1;
    }
    // (2) Earley vs independent fixpoint recogniser on short streams of small grammars
    if g.nts.len() <= 8 && an.rules.len() <= 20 && !g.terms.is_empty() {
        for k in 0..60 {
            let mut s = if k % 2 == 0 {
                an.sample_sentence(g.start, &mut rng, 3, 7)
            } else {
                (0..rng.range(0, 6)).map(|_| rng.below(g.terms.len())).collect()
            };
            if k % 4 == 0 {
                edits::edit(&mut s, g.terms.len(), &[], &mut rng);
            }
            s.truncate(8);
            let a = earley.judge(&s);
            let b = Fixpoint::judge(g, &s);
            if a != b {
                return Err(format!("Earley {:?} and fixpoint {:?} disagree on {:?}", a, b, s));
            }
            done += 1;
        }
    }
    Ok(done)
}

fn exec_json(plan: &Plan, v: &Verdict, x: &Exec) -> J {
    J::obj()
        .set("plan", plan.to_json())
        .set(
            "reference",
            J::obj()
                .set("sentence", J::Bool(v.sentence))
                .set("first_bad", v.first_bad.map(J::uz).unwrap_or(J::Null))
                .set("needed_pulls", J::uz(needed_pulls(v, plan.effective().len()))),
        )
        .set(
            "observed",
            J::obj()
                .set("result", x.tag.to_json())
                .set("pulls", J::uz(x.pulls))
                .set("pulls_after_end", J::uz(x.pulls_after_end))
                .set("size_hint_calls", J::uz(x.size_hint_calls))
                .set("leaked_tokens", J::uz(x.leaked))
                .set("events", J::uz(x.events.len())),
        )
}

pub fn main(glue: &Glue) {
    let args: Vec<String> = std::env::args().collect();
    if args.len() < 2 {
        usage();
    }
    std::panic::set_hook(Box::new(|_| {}));
    let model = J::parse(glue.model_json).expect("model json");
    let g = Grammar::from_json(&model).expect("model");
    let an = Analysis::new(&g);
    if !an.all_productive() {
        eprintln!("harness error: workload grammar has unproductive nonterminals");
        std::process::exit(2);
    }
    let earley = Earley::new(&g);
    match args[1].as_str() {
        "run" => {
            let seed: u64 = arg_val(&args, "--seed").and_then(|s| s.parse().ok()).unwrap_or(1);
            let item: u64 = arg_val(&args, "--item").and_then(|s| s.parse().ok()).unwrap_or(0);
            let n_ff: usize = arg_val(&args, "--faultfree").and_then(|s| s.parse().ok()).unwrap_or(100);
            let n_f: usize = arg_val(&args, "--faulty").and_then(|s| s.parse().ok()).unwrap_or(100);
            let from: usize = arg_val(&args, "--from").and_then(|s| s.parse().ok()).unwrap_or(0);
            let maxlen: usize = arg_val(&args, "--maxlen").and_then(|s| s.parse().ok()).unwrap_or(64);
            let out = arg_val(&args, "--out");
            start_watchdog(out.clone());
            let sc = match self_check(&g, &an, &earley, seed, item) {
                Ok(n) => n,
                Err(e) => {
                    eprintln!("harness error: reference self-check failed: {e}");
                    std::process::exit(2);
                }
            };
            let w = Workload { g: &g, an: &an, earley: &earley, maxlen };
            let mut digest = Fnv::new();
            let mut notes = Notes::default();
            let mut distinct = std::collections::HashSet::new();
            let mut distinct_nonsentence = std::collections::HashSet::new();
            let mut violations: Vec<J> = vec![];
            let mut samples: Vec<J> = vec![];
            let mut c = std::collections::BTreeMap::<&'static str, usize>::new();
            let bump = |k: &'static str, c: &mut std::collections::BTreeMap<&'static str, usize>| {
                *c.entry(k).or_insert(0) += 1;
            };
            let total = n_ff + n_f;
            for r in 0..total {
                let faulty = r >= n_ff;
                let run_no = (from + r) as u64;
                let mut rng = Rng::derive(seed, &[ENGINE_B, item, run_no, faulty as u64]);
                let d = w.draw(&mut rng, faulty);
                let plan = d.plan;
                let v = earley.judge(plan.effective());
                let x = execute(glue, &plan);
                // event log digest
                digest.u64(run_no);
                digest.str(&plan.to_json().to_string());
                digest.str(&x.tag.to_json().to_string());
                digest.u64(x.pulls as u64);
                for e in &x.events {
                    digest.str(&format!("{:?}", e));
                }
                let pd = plan.digest();
                distinct.insert(pd);
                bump(if faulty { "runs_faulty" } else { "runs_faultfree" }, &mut c);
                let n = plan.effective().len();
                if v.sentence {
                    bump("sentence", &mut c);
                } else {
                    distinct_nonsentence.insert(pd);
                    match v.first_bad {
                        Some(0) => bump("first_bad_at_0", &mut c),
                        Some(i) if i + 1 == n => bump("first_bad_at_last", &mut c),
                        Some(_) => bump("first_bad_in_middle", &mut c),
                        None => bump("viable_prefix_err_none", &mut c),
                    }
                    if v.first_bad.is_none() && n == 0 {
                        bump("empty_input_not_sentence", &mut c);
                    }
                }
                // faults that actually took effect
                let needed = needed_pulls(&v, n);
                if let Some(k) = plan.eof_at {
                    if x.pulls > k {
                        bump("fired_eof_at", &mut c);
                        if v.first_bad.is_none() && !v.sentence {
                            bump("probe_eof_inside_construct", &mut c);
                        }
                    }
                }
                if !plan.resume.is_empty() {
                    bump("armed_resume_after_eof", &mut c);
                    if x.events.iter().any(|e| matches!(e, Ev::End)) {
                        bump("fired_resume_armed_and_end_reached", &mut c);
                    }
                    if x.pulls_after_end > 0 {
                        bump("observed_pull_after_end", &mut c);
                    }
                }
                if let Some(p) = plan.panic_at {
                    if p <= needed {
                        bump("fired_panic_reached", &mut c);
                        if x.events.iter().any(|e| matches!(e, Ev::Drop(_))) {
                            bump("probe_panic_with_tokens_on_stack", &mut c);
                        }
                    } else {
                        bump("armed_panic_tripwire", &mut c);
                    }
                }
                if x.size_hint_calls > 0 {
                    bump("size_hint_called", &mut c);
                }
                match plan.hint {
                    Hint::Default => {}
                    _ => bump("nondefault_size_hint", &mut c),
                }
                match &x.tag {
                    Tag::Ok => bump("result_ok", &mut c),
                    Tag::ErrSome { .. } => bump("result_err_some", &mut c),
                    Tag::ErrNone => bump("result_err_none", &mut c),
                    Tag::ProducerPanic(_) => bump("result_producer_panic", &mut c),
                    Tag::OtherPanic(_) => bump("result_other_panic", &mut c),
                }
                if samples.len() < 3 && !v.sentence && (r % 7 == 3 || r + 1 == total) {
                    samples.push(exec_json(&plan, &v, &x).set("origin", J::str(d.origin)).set(
                        "edits",
                        J::Arr(d.edits.iter().map(|e| J::str(e)).collect()),
                    ));
                }
                if let Some(viol) = check(&plan, &v, &x, &mut notes) {
                    if violations.len() < 3 {
                        let (small, steps) = shrink(glue, &earley, &plan, viol.class, 3000);
                        let sv = earley.judge(small.effective());
                        let sx = execute(glue, &small);
                        let mut n2 = Notes::default();
                        let sviol = check(&small, &sv, &sx, &mut n2);
                        violations.push(
                            J::obj()
                                .set("class", J::str(viol.class))
                                .set("detail", J::str(&viol.detail))
                                .set("run", J::Int(run_no as i128))
                                .set("faulty", J::Bool(faulty))
                                .set("original", exec_json(&plan, &v, &x))
                                .set("minimised", exec_json(&small, &sv, &sx))
                                .set(
                                    "minimised_detail",
                                    J::str(&sviol.map(|v| v.detail).unwrap_or_default()),
                                )
                                .set("shrink_steps", J::uz(steps)),
                        );
                    } else {
                        bump("violations_not_minimised", &mut c);
                    }
                    bump("violations", &mut c);
                }
            }
            let mut counters = J::obj();
            for (k, v) in &c {
                counters.put(k, J::uz(*v));
            }
            let summary = J::obj()
                .set("item", J::Int(item as i128))
                .set("family", J::str(&g.family))
                .set("runs", J::uz(total))
                .set("self_checks", J::uz(sc))
                .set("distinct_plans", J::uz(distinct.len()))
                .set("distinct_nonsentence_plans", J::uz(distinct_nonsentence.len()))
                .set("digest", J::str(&format!("{:016x}", digest.0)))
                .set("counters", counters)
                .set(
                    "notes",
                    J::obj()
                        .set("sentence_rejected", J::uz(notes.sentence_rejected))
                        .set("sentence_overpull", J::uz(notes.sentence_overpull))
                        .set("sentence_panic", J::uz(notes.sentence_panic))
                        .set("leaked_tokens_runs", J::uz(notes.leaked_tokens))
                        .set("producer_not_dropped_runs", J::uz(notes.producer_not_dropped))
                        .set("producer_panic_swallowed", J::uz(notes.producer_panic_swallowed))
                        .set("producer_panic_propagated", J::uz(notes.producer_panic_propagated))
                        .set("underpull_correct_result", J::uz(notes.underpull_correct_result)),
                )
                .set("samples", J::Arr(samples))
                .set("violations", J::Arr(violations));
            let text = summary.to_string();
            match out {
                Some(p) => std::fs::write(p, text).expect("write summary"),
                None => println!("{text}"),
            }
        }
        "replay" => {
            start_watchdog(None);
            let file = args.get(2).cloned().unwrap_or_else(|| usage());
            let txt = std::fs::read_to_string(&file).expect("read plan");
            let j = J::parse(&txt).expect("plan json");
            let plan = Plan::from_json(j.get("plan").unwrap_or(&j)).expect("plan");
            let v = earley.judge(plan.effective());
            let x = execute(glue, &plan);
            let mut notes = Notes::default();
            let viol = check(&plan, &v, &x, &mut notes);
            let mut o = exec_json(&plan, &v, &x);
            match &viol {
                Some(v) => {
                    o.put("violation", J::str(v.class));
                    o.put("detail", J::str(&v.detail));
                }
                None => o.put("violation", J::Null),
            }
            let evs: Vec<J> = x.events.iter().map(|e| J::str(&format!("{:?}", e))).collect();
            o.put("event_log", J::Arr(evs));
            println!("{}", o.to_string());
            std::process::exit(if viol.is_some() { 1 } else { 0 });
        }
        "judge" => {
            // reference verdict only (never calls the parser): used to classify a hang
            let file = args.get(2).cloned().unwrap_or_else(|| usage());
            let txt = std::fs::read_to_string(&file).expect("read plan");
            let j = J::parse(&txt).expect("plan json");
            let plan = Plan::from_json(j.get("plan").unwrap_or(&j)).expect("plan");
            let v = earley.judge(plan.effective());
            println!(
                "{}",
                J::obj()
                    .set("sentence", J::Bool(v.sentence))
                    .set("first_bad", v.first_bad.map(J::uz).unwrap_or(J::Null))
                    .to_string()
            );
        }
        _ => usage(),
    }
}
