//! Engine B runtime: the simulated token producer, the event log, the
//! scheduler for interleaved parser activations, the monitors (oracles O1-O4,
//! O7), the in-process minimiser and the `main` of every per-grammar binary.
//!
//! The per-grammar binary consists of the *unmodified* text returned by
//! `kiki::generate`, a generated `glue.rs` (token constructor / inspector and
//! a call of the emitted `parse`) and this module.

use crate::earley::{Earley, Fixpoint, Verdict};
use crate::edits;
use crate::grammar::{Analysis, Grammar};
use crate::json::J;
use crate::lr1::{BuildErr, Lr1};
use crate::rng::{Fnv, Rng};
use std::cell::RefCell;
use std::panic::{catch_unwind, AssertUnwindSafe};
use std::sync::atomic::{AtomicBool, AtomicU64, Ordering};
use std::sync::mpsc::{channel, Receiver, Sender};
use std::sync::{Arc, Mutex};

pub const ENGINE_B: u64 = 0xB;

// ------------------------------------------------------------------ payload

/// Payload of every terminal of every workload grammar. Deliberately no
/// derives at all (C03 must hold without any trait on payload types).
pub struct Tok {
    pub id: u64,
}

impl Drop for Tok {
    fn drop(&mut self) {
        ev(Ev::Drop(self.id));
    }
}

#[derive(Clone, Debug, PartialEq, Eq)]
pub enum Ev {
    IntoIter,
    SizeHint,
    Pull(usize),
    Yield { pos: usize, kind: usize, id: u64 },
    YieldAfterEnd { kind: usize, id: u64 },
    End,
    NoneAfterEnd,
    ProducerPanic(usize),
    ReenterBegin(usize),
    ReenterEnd(usize),
    ProducerDropped,
    Drop(u64),
    ParseReturned,
    ResultDropped,
}

thread_local! {
    static LOG: RefCell<Vec<Ev>> = RefCell::new(Vec::new());
}

fn ev(e: Ev) {
    let _ = LOG.try_with(|l| {
        if let Ok(mut l) = l.try_borrow_mut() {
            l.push(e);
        }
    });
}

fn take_log() -> Vec<Ev> {
    LOG.with(|l| std::mem::take(&mut *l.borrow_mut()))
}

fn restore_log(mut old: Vec<Ev>) {
    LOG.with(|l| {
        let mut cur = l.borrow_mut();
        old.append(&mut cur);
        *cur = old;
    });
}

// --------------------------------------------------------------------- plan

#[derive(Clone, Copy, Debug, PartialEq, Eq)]
pub enum Hint {
    Default,
    Exact,
    LowerOnly,
    UpperLoose,
}

impl Hint {
    fn name(self) -> &'static str {
        match self {
            Hint::Default => "default",
            Hint::Exact => "exact",
            Hint::LowerOnly => "lower_only",
            Hint::UpperLoose => "upper_loose",
        }
    }
    fn from_name(s: &str) -> Hint {
        match s {
            "exact" => Hint::Exact,
            "lower_only" => Hint::LowerOnly,
            "upper_loose" => Hint::UpperLoose,
            _ => Hint::Default,
        }
    }
}

/// One token stream and the behaviour of its producer, fully explicit.
#[derive(Clone, Debug, PartialEq, Eq)]
pub struct Plan {
    /// planned token kinds (workload)
    pub kinds: Vec<usize>,
    /// fault: the stream ends after this many tokens (an end of input at an arbitrary instant)
    pub eof_at: Option<usize>,
    /// fault: the producer is not fused; pulled again after `None` it yields these
    pub resume: Vec<usize>,
    /// fault: the k-th pull (1-based) panics (producer crash / tripwire)
    pub panic_at: Option<usize>,
    /// which (truthful) `size_hint` the producer reports
    pub hint: Hint,
}

impl Plan {
    pub fn plain(kinds: Vec<usize>) -> Plan {
        Plan { kinds, eof_at: None, resume: vec![], panic_at: None, hint: Hint::Default }
    }
    pub fn effective(&self) -> &[usize] {
        match self.eof_at {
            Some(k) => &self.kinds[..k.min(self.kinds.len())],
            None => &self.kinds,
        }
    }
    pub fn to_json(&self) -> J {
        J::obj()
            .set("kinds", J::Arr(self.kinds.iter().map(|k| J::uz(*k)).collect()))
            .set("eof_at", self.eof_at.map(J::uz).unwrap_or(J::Null))
            .set("resume", J::Arr(self.resume.iter().map(|k| J::uz(*k)).collect()))
            .set("panic_at", self.panic_at.map(J::uz).unwrap_or(J::Null))
            .set("hint", J::str(self.hint.name()))
    }
    pub fn from_json(j: &J) -> Result<Plan, String> {
        let arr = |k: &str| -> Result<Vec<usize>, String> {
            Ok(j.get(k)
                .and_then(|x| x.as_arr())
                .ok_or(format!("plan.{k}"))?
                .iter()
                .filter_map(|x| x.as_usize())
                .collect())
        };
        Ok(Plan {
            kinds: arr("kinds")?,
            eof_at: j.get("eof_at").and_then(|x| x.as_usize()),
            resume: arr("resume")?,
            panic_at: j.get("panic_at").and_then(|x| x.as_usize()),
            hint: Hint::from_name(j.get("hint").and_then(|x| x.as_str()).unwrap_or("default")),
        })
    }
}

/// One simulated run: activation A, optionally a re-entrant activation started
/// from inside A's producer, optionally a second activation B on another thread
/// interleaved with A at pull granularity by an explicit schedule, after an
/// explicit call history. A replay never needs the PRNG.
#[derive(Clone, Debug, PartialEq, Eq)]
pub struct Scenario {
    pub a: Plan,
    /// fault: when A's producer is asked for item #k it first runs a complete,
    /// independent parse of this plan on the same thread (a side-effecting
    /// iterator that itself uses the parser)
    pub reenter: Option<(usize, Plan)>,
    /// second parser activation on its own thread
    pub b: Option<Plan>,
    /// scheduler decisions while both A and B are parked at a pull: 0 = A runs, 1 = B runs
    pub schedule: Vec<u8>,
    /// plans parsed earlier on the same thread of the same process
    pub history: Vec<Plan>,
}

impl Scenario {
    pub fn single(a: Plan) -> Scenario {
        Scenario { a, reenter: None, b: None, schedule: vec![], history: vec![] }
    }
    pub fn to_json(&self) -> J {
        J::obj()
            .set("a", self.a.to_json())
            .set(
                "reenter",
                match &self.reenter {
                    Some((k, p)) => J::obj().set("at_pull", J::uz(*k)).set("plan", p.to_json()),
                    None => J::Null,
                },
            )
            .set("b", self.b.as_ref().map(|p| p.to_json()).unwrap_or(J::Null))
            .set("schedule", J::Arr(self.schedule.iter().map(|x| J::uz(*x as usize)).collect()))
            .set("history", J::Arr(self.history.iter().map(|p| p.to_json()).collect()))
    }
    pub fn from_json(j: &J) -> Result<Scenario, String> {
        if j.get("a").is_none() {
            // a bare plan
            return Ok(Scenario::single(Plan::from_json(j)?));
        }
        let reenter = match j.get("reenter") {
            Some(r) if !r.is_null() => Some((
                r.get("at_pull").and_then(|x| x.as_usize()).ok_or("reenter.at_pull")?,
                Plan::from_json(r.get("plan").ok_or("reenter.plan")?)?,
            )),
            _ => None,
        };
        let b = match j.get("b") {
            Some(b) if !b.is_null() => Some(Plan::from_json(b)?),
            _ => None,
        };
        let mut history = vec![];
        for h in j.get("history").and_then(|x| x.as_arr()).unwrap_or(&[]) {
            history.push(Plan::from_json(h)?);
        }
        Ok(Scenario {
            a: Plan::from_json(j.get("a").unwrap())?,
            reenter,
            b,
            schedule: j
                .get("schedule")
                .and_then(|x| x.as_arr())
                .unwrap_or(&[])
                .iter()
                .filter_map(|x| x.as_usize())
                .map(|x| x as u8)
                .collect(),
            history,
        })
    }
    fn digest(&self) -> u64 {
        let mut f = Fnv::new();
        f.str(&self.to_json().to_string());
        f.0
    }
}

// ----------------------------------------------------------------- producer

pub struct ProducerCrash(pub usize);

enum GateMsg {
    AtGate(u8),
    Finished(u8),
}

struct Gate {
    who: u8,
    arrive: Sender<GateMsg>,
    grant: Receiver<()>,
}

pub struct SimStream {
    s: Vec<usize>,
    resume: Vec<usize>,
    panic_at: Option<usize>,
    hint: Hint,
    pos: usize,
    rpos: usize,
    pub pulls: usize,
    pub ended: bool,
    pub pulls_after_end: usize,
    next_id: u64,
    /// (kind, id) of the token delivered for position i of the effective stream
    pub delivered: Vec<(usize, u64)>,
    reenter: Option<(usize, Plan)>,
    run_parse: Option<ParseFn>,
    inner: Vec<(Plan, Obs)>,
    gate: Option<Gate>,
}

impl SimStream {
    fn new(plan: &Plan, id_base: u64) -> SimStream {
        SimStream {
            s: plan.effective().to_vec(),
            resume: plan.resume.clone(),
            panic_at: plan.panic_at,
            hint: plan.hint,
            pos: 0,
            rpos: 0,
            pulls: 0,
            ended: false,
            pulls_after_end: 0,
            next_id: id_base + 1,
            delivered: vec![],
            reenter: None,
            run_parse: None,
            inner: vec![],
            gate: None,
        }
    }

    pub fn pull(&mut self) -> Option<(usize, Tok)> {
        if let Some(g) = &self.gate {
            // scheduling point: park until the simulator lets this activation proceed
            let _ = g.arrive.send(GateMsg::AtGate(g.who));
            let _ = g.grant.recv();
        }
        self.pulls += 1;
        ev(Ev::Pull(self.pulls));
        if let Some((k, _)) = &self.reenter {
            if *k == self.pulls {
                let (_, inner_plan) = self.reenter.take().unwrap();
                if let Some(rp) = self.run_parse.clone() {
                    ev(Ev::ReenterBegin(self.pulls));
                    let outer_log = take_log();
                    let obs = run_activation(&rp, &inner_plan, None, None, 1_000_000);
                    restore_log(outer_log);
                    ev(Ev::ReenterEnd(self.pulls));
                    self.inner.push((inner_plan, obs.0));
                }
            }
        }
        if self.panic_at == Some(self.pulls) {
            ev(Ev::ProducerPanic(self.pulls));
            std::panic::panic_any(ProducerCrash(self.pulls));
        }
        if !self.ended {
            if self.pos < self.s.len() {
                let kind = self.s[self.pos];
                let id = self.next_id;
                self.next_id += 1;
                ev(Ev::Yield { pos: self.pos, kind, id });
                self.delivered.push((kind, id));
                self.pos += 1;
                return Some((kind, Tok { id }));
            }
            self.ended = true;
            ev(Ev::End);
            return None;
        }
        self.pulls_after_end += 1;
        if self.rpos < self.resume.len() {
            let kind = self.resume[self.rpos];
            self.rpos += 1;
            let id = self.next_id;
            self.next_id += 1;
            ev(Ev::YieldAfterEnd { kind, id });
            return Some((kind, Tok { id }));
        }
        ev(Ev::NoneAfterEnd);
        None
    }

    pub fn size_hint(&self) -> (usize, Option<usize>) {
        ev(Ev::SizeHint);
        let rem = if self.ended { 0 } else { self.s.len() - self.pos };
        match self.hint {
            Hint::Default => (0, None),
            Hint::Exact => (rem, Some(rem)),
            Hint::LowerOnly => (rem, None),
            Hint::UpperLoose => (0, Some(rem + 3)),
        }
    }
}

/// What the glue hands to the emitted `parse`: an `IntoIterator`, not an
/// iterator, whose iterator pulls lazily from the simulated producer.
pub struct SimSource<'a, K> {
    pub stream: &'a mut SimStream,
    pub mk: fn(usize, Tok) -> K,
}

pub struct SimIter<'a, K> {
    stream: &'a mut SimStream,
    mk: fn(usize, Tok) -> K,
}

impl<'a, K> IntoIterator for SimSource<'a, K> {
    type Item = K;
    type IntoIter = SimIter<'a, K>;
    fn into_iter(self) -> SimIter<'a, K> {
        ev(Ev::IntoIter);
        SimIter { stream: self.stream, mk: self.mk }
    }
}

impl<K> Iterator for SimIter<'_, K> {
    type Item = K;
    fn next(&mut self) -> Option<K> {
        let mk = self.mk;
        self.stream.pull().map(|(k, t)| mk(k, t))
    }
    fn size_hint(&self) -> (usize, Option<usize>) {
        self.stream.size_hint()
    }
}

impl<K> Drop for SimIter<'_, K> {
    fn drop(&mut self) {
        ev(Ev::ProducerDropped);
    }
}

// --------------------------------------------------------------------- glue

pub trait Held {}
impl<T> Held for T {}

pub enum Outcome {
    Ok(Box<dyn Held>),
    ErrSome { kind: usize, id: u64, tok: Box<dyn Held> },
    ErrNone,
}

/// The parser under test as seen by the simulator: normally the emitted `parse` behind the
/// generated glue; in tables-only mode an interpreter of the emitted tables.
pub type ParseFn = Arc<dyn Fn(&mut SimStream) -> Outcome + Send + Sync>;

pub struct Glue {
    pub model_json: &'static str,
    pub src_kiki: &'static str,
    /// the emitted module text (for the table interpreter that shadows the real parser)
    pub emitted: &'static str,
    pub run_parse: ParseFn,
}

// ---------------------------------------------------------------- execution

#[derive(Clone, Debug, PartialEq, Eq)]
pub enum Tag {
    Ok,
    ErrSome { kind: usize, id: u64 },
    ErrNone,
    ProducerPanic(usize),
    OtherPanic(String),
}

impl Tag {
    pub fn to_json(&self) -> J {
        match self {
            Tag::Ok => J::str("Ok"),
            Tag::ErrSome { kind, id } => {
                J::obj().set("Err(Some)", J::obj().set("kind", J::uz(*kind)).set("id", J::Int(*id as i128)))
            }
            Tag::ErrNone => J::str("Err(None)"),
            Tag::ProducerPanic(k) => J::obj().set("producer_panic_propagated_from_pull", J::uz(*k)),
            Tag::OtherPanic(m) => J::obj().set("panic", J::str(m)),
        }
    }
}

/// Everything observed about one parser activation.
#[derive(Clone, Debug)]
pub struct Obs {
    pub tag: Tag,
    pub events: Vec<Ev>,
    pub pulls: usize,
    pub pulls_after_end: usize,
    pub delivered: Vec<(usize, u64)>,
    pub size_hint_calls: usize,
    pub leaked: usize,
    pub producer_dropped: bool,
}

impl Obs {
    fn to_json(&self) -> J {
        J::obj()
            .set("result", self.tag.to_json())
            .set("pulls", J::uz(self.pulls))
            .set("pulls_after_end", J::uz(self.pulls_after_end))
            .set("size_hint_calls", J::uz(self.size_hint_calls))
            .set("leaked_tokens", J::uz(self.leaked))
            .set("events", J::uz(self.events.len()))
    }
}

/// Runs one activation on the current thread; returns its observation and the
/// observations of re-entrant activations started from inside its producer.
fn run_activation(
    run_parse: &ParseFn,
    plan: &Plan,
    reenter: Option<(usize, Plan)>,
    gate: Option<Gate>,
    id_base: u64,
) -> (Obs, Vec<(Plan, Obs)>) {
    let _ = take_log();
    let mut stream = SimStream::new(plan, id_base);
    stream.reenter = reenter;
    stream.run_parse = Some(run_parse.clone());
    stream.gate = gate;
    let r = catch_unwind(AssertUnwindSafe(|| run_parse(&mut stream)));
    ev(Ev::ParseReturned);
    let (tag, held): (Tag, Option<Box<dyn Held>>) = match r {
        Ok(Outcome::Ok(t)) => (Tag::Ok, Some(t)),
        Ok(Outcome::ErrSome { kind, id, tok }) => (Tag::ErrSome { kind, id }, Some(tok)),
        Ok(Outcome::ErrNone) => (Tag::ErrNone, None),
        Err(p) => {
            if let Some(c) = p.downcast_ref::<ProducerCrash>() {
                (Tag::ProducerPanic(c.0), None)
            } else if let Some(s) = p.downcast_ref::<String>() {
                (Tag::OtherPanic(s.clone()), None)
            } else if let Some(s) = p.downcast_ref::<&str>() {
                (Tag::OtherPanic(s.to_string()), None)
            } else {
                (Tag::OtherPanic("<non-string payload>".into()), None)
            }
        }
    };
    drop(held);
    ev(Ev::ResultDropped);
    let events = take_log();
    let mut yielded = 0usize;
    let mut dropped = 0usize;
    let mut size_hint_calls = 0usize;
    let mut producer_dropped = false;
    for e in &events {
        match e {
            Ev::Yield { .. } | Ev::YieldAfterEnd { .. } => yielded += 1,
            Ev::Drop(_) => dropped += 1,
            Ev::SizeHint => size_hint_calls += 1,
            Ev::ProducerDropped => producer_dropped = true,
            _ => {}
        }
    }
    let inner = std::mem::take(&mut stream.inner);
    (
        Obs {
            tag,
            pulls: stream.pulls,
            pulls_after_end: stream.pulls_after_end,
            delivered: stream.delivered.clone(),
            events,
            size_hint_calls,
            leaked: yielded.saturating_sub(dropped),
            producer_dropped,
        },
        inner,
    )
}

pub struct ScenarioObs {
    pub a: Obs,
    pub inner: Vec<(Plan, Obs)>,
    pub b: Option<Obs>,
    /// scheduler decisions actually taken (a prefix of the planned schedule, padded by the default)
    pub schedule_used: Vec<u8>,
}

static WATCH_PROGRESS: AtomicU64 = AtomicU64::new(0);
static WATCH_IN_RUN: AtomicBool = AtomicBool::new(false);
static WATCH_PLAN: Mutex<Option<String>> = Mutex::new(None);

/// Executes a scenario (without its history). Exactly one parser activation
/// runs at any time; which one is decided by the scenario's schedule.
pub fn execute(glue: &Glue, sc: &Scenario) -> ScenarioObs {
    {
        *WATCH_PLAN.lock().unwrap() = Some(sc.to_json().to_string());
    }
    WATCH_PROGRESS.fetch_add(1, Ordering::SeqCst);
    WATCH_IN_RUN.store(true, Ordering::SeqCst);
    let out = match &sc.b {
        None => {
            let (a, inner) = run_activation(&glue.run_parse, &sc.a, sc.reenter.clone(), None, 0);
            ScenarioObs { a, inner, b: None, schedule_used: vec![] }
        }
        Some(bplan) => {
            let rp = glue.run_parse.clone();
            let rp2 = glue.run_parse.clone();
            let (arrive_tx, arrive_rx) = channel::<GateMsg>();
            let (ga_tx, ga_rx) = channel::<()>();
            let (gb_tx, gb_rx) = channel::<()>();
            let gate_a = Gate { who: 0, arrive: arrive_tx.clone(), grant: ga_rx };
            let gate_b = Gate { who: 1, arrive: arrive_tx.clone(), grant: gb_rx };
            let reenter = sc.reenter.clone();
            let aplan = sc.a.clone();
            let bplan = bplan.clone();
            let mut used = vec![];
            let (ra, rb) = std::thread::scope(|scope| {
                let fin_a = arrive_tx.clone();
                let fin_b = arrive_tx.clone();
                let ha = scope.spawn(move || {
                    // initial gate: do not start before the scheduler says so
                    let _ = gate_a.arrive.send(GateMsg::AtGate(0));
                    let _ = gate_a.grant.recv();
                    let r = run_activation(&rp, &aplan, reenter, Some(gate_a), 0);
                    let _ = fin_a.send(GateMsg::Finished(0));
                    r
                });
                let hb = scope.spawn(move || {
                    let _ = gate_b.arrive.send(GateMsg::AtGate(1));
                    let _ = gate_b.grant.recv();
                    let r = run_activation(&rp2, &bplan, None, Some(gate_b), 2_000_000);
                    let _ = fin_b.send(GateMsg::Finished(1));
                    r
                });
                // 0 = running, 1 = parked at gate, 2 = finished
                let mut st = [0u8, 0u8];
                let mut si = 0usize;
                loop {
                    while st[0] == 0 || st[1] == 0 {
                        match arrive_rx.recv() {
                            Ok(GateMsg::AtGate(w)) => st[w as usize] = 1,
                            Ok(GateMsg::Finished(w)) => st[w as usize] = 2,
                            Err(_) => break,
                        }
                    }
                    if st[0] == 2 && st[1] == 2 {
                        break;
                    }
                    let pick = if st[0] == 1 && st[1] == 1 {
                        let c = sc.schedule.get(si).copied().unwrap_or(0) & 1;
                        si += 1;
                        used.push(c);
                        c
                    } else if st[0] == 1 {
                        0
                    } else {
                        1
                    };
                    st[pick as usize] = 0;
                    let _ = if pick == 0 { ga_tx.send(()) } else { gb_tx.send(()) };
                }
                (ha.join(), hb.join())
            });
            let (a, inner) = ra.expect("activation A thread");
            let (b, _) = rb.expect("activation B thread");
            ScenarioObs { a, inner, b: Some(b), schedule_used: used }
        }
    };
    WATCH_IN_RUN.store(false, Ordering::SeqCst);
    out
}

// ---------------------------------------------------------------- reference

/// The reference model a run is judged by.
///   * every nonterminal productive: the Earley recogniser (first index whose prefix cannot
///     be extended to a sentence); the canonical LR(1) parser, when it could be built, must
///     agree on every run (a disagreement is a harness error, never a violation);
///   * otherwise (C03's side clause): the index at which the canonical LR(1) parser stops.
pub struct Reference {
    pub productive: bool,
    earley: Earley,
    lr1: Option<Lr1>,
    pub lr1_states: usize,
}

impl Reference {
    pub fn new(g: &Grammar, an: &Analysis) -> Result<Reference, String> {
        let productive = an.all_productive();
        let earley = Earley::new(g);
        let lr1 = match Lr1::build(g, 6000) {
            Ok(l) => {
                if l.conflicts > 0 {
                    if productive {
                        None
                    } else {
                        return Err("canonical LR(1) table of a grammar accepted by generate has conflicts; no reference available".into());
                    }
                } else {
                    Some(l)
                }
            }
            Err(BuildErr::TooManyStates(n)) => {
                if productive {
                    None
                } else {
                    return Err(format!("canonical LR(1) automaton exceeds {n} states; no reference available"));
                }
            }
        };
        let lr1_states = lr1.as_ref().map(|l| l.states()).unwrap_or(0);
        Ok(Reference { productive, earley, lr1, lr1_states })
    }

    pub fn judge(&self, kinds: &[usize]) -> Verdict {
        if self.productive {
            let v = self.earley.judge(kinds);
            if let Some(l) = &self.lr1 {
                let w = l.judge(kinds);
                if v != w {
                    eprintln!(
                        "harness error: reference models disagree on {:?}: earley {:?}, canonical LR(1) {:?}",
                        kinds, v, w
                    );
                    std::process::exit(2);
                }
            }
            v
        } else {
            self.lr1.as_ref().expect("lr1 reference").judge(kinds)
        }
    }

    pub fn walk(&self, rng: &mut Rng, len: usize) -> Option<Vec<usize>> {
        self.lr1.as_ref().map(|l| l.walk(rng, len))
    }

    pub fn has_lr1(&self) -> bool {
        self.lr1.is_some()
    }
}

// ------------------------------------------------------------------ oracles

#[derive(Clone, Debug, PartialEq, Eq)]
pub struct Violation {
    /// O1-accepted-non-sentence | O2-wrong-offender | O3-wrong-at-end |
    /// O4-overpull | O4-pull-after-end | panic
    pub class: &'static str,
    /// which activation: "A", "inner", "B"
    pub who: &'static str,
    pub detail: String,
}

#[derive(Default, Clone, Debug)]
pub struct Notes {
    /// observations outside C03 (sentences, leaks, swallowed producer panics)
    pub sentence_rejected: usize,
    pub sentence_overpull: usize,
    pub sentence_panic: usize,
    pub leaked_tokens: usize,
    pub producer_not_dropped: usize,
    pub producer_panic_swallowed: usize,
    pub producer_panic_propagated: usize,
    pub underpull_correct_result: usize,
}

/// Number of pulls a correct parser needs: tokens 0..=first_bad, or all n
/// tokens and the end-of-input `None`.
pub fn needed_pulls(v: &Verdict, n: usize) -> usize {
    match v.first_bad {
        Some(i) => i + 1,
        None => n + 1,
    }
}

pub fn check(plan: &Plan, v: &Verdict, x: &Obs, who: &'static str, notes: &mut Notes) -> Option<Violation> {
    let s = plan.effective();
    let n = s.len();
    let needed = needed_pulls(v, n);
    let viol = |class: &'static str, detail: String| Some(Violation { class, who, detail });
    if x.leaked > 0 {
        notes.leaked_tokens += 1;
    }
    if !x.producer_dropped {
        notes.producer_not_dropped += 1;
    }
    // Producer crash reached legitimately: nothing in C03 says what must happen.
    if let Some(p) = plan.panic_at {
        if p <= needed {
            match &x.tag {
                Tag::ProducerPanic(_) => notes.producer_panic_propagated += 1,
                _ => notes.producer_panic_swallowed += 1,
            }
            return None;
        }
    }
    if v.sentence {
        // C03 is silent on sentences (C01/C02 territory): observations only.
        match &x.tag {
            Tag::Ok => {}
            Tag::OtherPanic(_) | Tag::ProducerPanic(_) => notes.sentence_panic += 1,
            _ => notes.sentence_rejected += 1,
        }
        if x.pulls > needed {
            notes.sentence_overpull += 1;
        }
        return None;
    }
    // ---- s is not a sentence: C03 applies
    if let Tag::ProducerPanic(k) = &x.tag {
        // the tripwire beyond the reported token was hit: over-pull made visible
        return viol(
            "O4-overpull",
            format!("parser pulled item #{k} (tripwire) although the verdict is decidable after {needed} pulls"),
        );
    }
    if let Tag::OtherPanic(m) = &x.tag {
        return viol("panic", format!("parse panicked on a non-sentence: {m}"));
    }
    if let Tag::Ok = &x.tag {
        return viol(
            "O1-accepted-non-sentence",
            format!("parse returned Ok for a non-sentence (first_bad={:?}, n={n})", v.first_bad),
        );
    }
    match v.first_bad {
        Some(i) => match &x.tag {
            Tag::ErrSome { kind, id } => {
                let want = x.delivered.get(i).copied();
                if want != Some((*kind, *id)) {
                    let at = x.delivered.iter().position(|(_, d)| d == id);
                    let wanted = match want {
                        Some((ek, eid)) => format!("kind {ek}, id {eid}"),
                        None => format!("kind {}, never pulled", s[i]),
                    };
                    return viol(
                        "O2-wrong-offender",
                        format!(
                            "expected the token delivered for index {i} ({wanted}); got kind {kind}, id {id} (the object delivered for index {at:?})"
                        ),
                    );
                }
            }
            other => {
                return viol(
                    "O2-wrong-offender",
                    format!("expected Err(Some(token at index {i})); got {}", other.to_json().to_string()),
                )
            }
        },
        None => {
            if x.tag != Tag::ErrNone {
                return viol(
                    "O3-wrong-at-end",
                    format!(
                        "input stops where the parser must report end of input: expected Err(None); got {}",
                        x.tag.to_json().to_string()
                    ),
                );
            }
        }
    }
    if x.pulls_after_end > 0 {
        return viol(
            "O4-pull-after-end",
            format!("{} pull(s) issued after the producer had returned None", x.pulls_after_end),
        );
    }
    if x.pulls > needed {
        return viol("O4-overpull", format!("{} pulls issued; the reported token is item #{needed}", x.pulls));
    }
    if x.pulls < needed {
        notes.underpull_correct_result += 1;
    }
    None
}

pub struct Judged {
    pub va: Verdict,
    pub violation: Option<Violation>,
}

pub fn check_scenario(reference: &Reference, sc: &Scenario, so: &ScenarioObs, notes: &mut Notes) -> Judged {
    let va = reference.judge(sc.a.effective());
    let mut violation = check(&sc.a, &va, &so.a, "A", notes);
    for (p, o) in &so.inner {
        let v = reference.judge(p.effective());
        let r = check(p, &v, o, "inner", notes);
        if violation.is_none() {
            violation = r;
        }
    }
    if let (Some(p), Some(o)) = (&sc.b, &so.b) {
        let v = reference.judge(p.effective());
        let r = check(p, &v, o, "B", notes);
        if violation.is_none() {
            violation = r;
        }
    }
    Judged { va, violation }
}

// -------------------------------------------------------------- minimiser

fn normalise(mut p: Plan) -> Plan {
    if let Some(k) = p.eof_at {
        if k >= p.kinds.len() {
            p.eof_at = None;
        }
    }
    p
}

/// Delta debugging over the explicit scenario; accepts a candidate only if the
/// same violation class persists (re-evaluating the reference on each one).
pub fn shrink(glue: &Glue, reference: &Reference, sc: &Scenario, class: &str, budget: usize) -> (Scenario, usize) {
    let mut best = sc.clone();
    best.history.clear();
    best.a = normalise(best.a);
    let mut steps = 0usize;
    let still = |c: &Scenario, steps: &mut usize| -> bool {
        *steps += 1;
        let so = execute(glue, c);
        let mut notes = Notes::default();
        matches!(check_scenario(reference, c, &so, &mut notes).violation, Some(v) if v.class == class)
    };
    // 0. reduce the shape: no second activation, no re-entrancy, or B / inner alone
    let mut shape: Vec<Scenario> = vec![];
    if let Some(b) = &best.b {
        shape.push(Scenario::single(b.clone()));
        let mut c = best.clone();
        c.b = None;
        c.schedule.clear();
        shape.push(c);
        let mut c = best.clone();
        c.schedule = vec![]; // default schedule: A runs to completion first
        shape.push(c);
    }
    if let Some((_, p)) = &best.reenter {
        shape.push(Scenario::single(p.clone()));
        let mut c = best.clone();
        c.reenter = None;
        shape.push(c);
    }
    for c in shape {
        if steps < budget && c != best && still(&c, &mut steps) {
            best = c;
        }
    }
    if best.b.is_some() {
        // drop a second activation that survived only if it is still needed
        let mut c = best.clone();
        c.b = None;
        c.schedule.clear();
        if steps < budget && still(&c, &mut steps) {
            best = c;
        }
    }
    // 1. drop fault kinds of A one at a time
    let simplifiers: [fn(&Plan) -> Plan; 4] = [
        |p| {
            let mut t = p.clone();
            t.hint = Hint::Default;
            t
        },
        |p| {
            let mut t = p.clone();
            t.resume.clear();
            t
        },
        |p| {
            let mut t = p.clone();
            t.panic_at = None;
            t
        },
        |p| {
            // materialise the early end: same stream, no fault label
            let mut t = p.clone();
            t.kinds = t.effective().to_vec();
            t.eof_at = None;
            t
        },
    ];
    for f in simplifiers.iter() {
        let mut c = best.clone();
        c.a = f(&best.a);
        if c != best && steps < budget && still(&c, &mut steps) {
            best = c;
        }
    }
    // 2. ddmin over A's planned kinds
    let mut chunk = (best.a.kinds.len() / 2).max(1);
    while steps < budget {
        let mut i = 0;
        let mut progressed = false;
        while i < best.a.kinds.len() && steps < budget {
            let end = (i + chunk).min(best.a.kinds.len());
            let mut t = best.a.clone();
            t.kinds.drain(i..end);
            if let Some(k) = t.eof_at {
                let removed_before = end.min(k).saturating_sub(i.min(k));
                t.eof_at = Some(k - removed_before);
            }
            if let Some(p) = t.panic_at {
                let q = p.saturating_sub(1);
                let removed_before = end.min(q).saturating_sub(i.min(q));
                t.panic_at = Some((p - removed_before).max(1));
            }
            let mut c = best.clone();
            c.a = normalise(t);
            if let Some((k, _)) = &mut c.reenter {
                *k = (*k).min(c.a.kinds.len() + 1).max(1);
            }
            if still(&c, &mut steps) {
                best = c;
                progressed = true;
            } else {
                i += chunk;
            }
        }
        if chunk > 1 {
            chunk /= 2;
        } else if !progressed {
            break;
        }
    }
    // 3. shorten the resume tail, the schedule, the other activations
    while !best.a.resume.is_empty() && steps < budget {
        let mut c = best.clone();
        c.a.resume.pop();
        if still(&c, &mut steps) {
            best = c;
        } else {
            break;
        }
    }
    while !best.schedule.is_empty() && steps < budget {
        let mut c = best.clone();
        c.schedule.pop();
        if still(&c, &mut steps) {
            best = c;
        } else {
            break;
        }
    }
    for which in 0..2 {
        loop {
            let mut c = best.clone();
            let p = match (which, &mut c.b, &mut c.reenter) {
                (0, Some(b), _) => b,
                (1, _, Some((_, p))) => p,
                _ => break,
            };
            if p.kinds.is_empty() || steps >= budget {
                break;
            }
            p.kinds.pop();
            *p = normalise(p.clone());
            if still(&c, &mut steps) {
                best = c;
            } else {
                break;
            }
        }
    }
    (best, steps)
}

// --------------------------------------------------------------- plan maker

pub struct Workload<'a> {
    pub g: &'a Grammar,
    pub an: &'a Analysis,
    pub reference: &'a Reference,
    pub maxlen: usize,
}

pub struct Drawn {
    pub sc: Scenario,
    pub origin: &'static str,
    pub edits: Vec<&'static str>,
}

impl Workload<'_> {
    fn draw_kinds(&self, rng: &mut Rng, edits_applied: &mut Vec<&'static str>) -> (Vec<usize>, &'static str) {
        let nt = self.g.terms.len();
        let start_ok = self.an.productive[self.g.start];
        let mut which = rng.weighted(&[10, 2, 2, 3]);
        if !start_ok && (which == 0 || which == 2) {
            which = 3;
        }
        if which == 3 && !self.reference.has_lr1() {
            which = if start_ok { 0 } else { 1 };
        }
        let origin;
        let mut kinds: Vec<usize>;
        match which {
            0 => {
                origin = "derivation";
                let budget = rng.range(2, 12);
                let cap = rng.range(self.maxlen.max(2) / 2, self.maxlen.max(2));
                kinds = self.an.sample_sentence(self.g.start, rng, budget, cap);
                let other = if rng.chance(1, 3) {
                    let b = rng.range(1, 6);
                    self.an.sample_sentence(self.g.start, rng, b, cap)
                } else {
                    vec![]
                };
                let n_edits = rng.weighted(&[3, 6, 2, 1]);
                for _ in 0..n_edits {
                    edits_applied.push(edits::edit(&mut kinds, nt, &other, rng));
                }
            }
            1 => {
                origin = "random";
                let len = rng.range(0, 8);
                kinds = (0..len).map(|_| rng.below(nt)).collect();
            }
            2 => {
                origin = "prefix";
                let cap = rng.range(1, self.maxlen.max(1));
                let b = rng.range(1, 9);
                kinds = self.an.sample_sentence(self.g.start, rng, b, cap);
                let k = rng.below(kinds.len() + 1);
                kinds.truncate(k);
            }
            _ => {
                // random walk over the canonical LR(1) automaton: a long prefix on which a
                // canonical parser reports no error, then (mostly) one edit
                origin = "lr-walk";
                let len = rng.range(1, self.maxlen.max(1));
                kinds = self.reference.walk(rng, len).unwrap_or_default();
                if rng.chance(2, 3) {
                    edits_applied.push(edits::edit(&mut kinds, nt, &[], rng));
                }
            }
        }
        kinds.truncate(self.maxlen);
        (kinds, origin)
    }

    fn add_faults(&self, plan: &mut Plan, rng: &mut Rng) {
        let nt = self.g.terms.len();
        let n = plan.kinds.len();
        // swarm: each run enables its own subset of fault kinds
        let en_eof = rng.chance(1, 2);
        let en_resume = rng.chance(1, 2);
        let en_panic = rng.chance(1, 2);
        if en_eof && n > 0 {
            // bias: k = 0, k right before the first offender, uniform
            let k = match rng.below(10) {
                0 => 0,
                1..=3 => {
                    let v = self.reference.judge(&plan.kinds);
                    v.first_bad.unwrap_or(n).min(n)
                }
                _ => rng.below(n + 1),
            };
            if k < n {
                plan.eof_at = Some(k);
            }
        }
        if en_resume && nt > 0 {
            let len = rng.range(1, 4);
            // bias: resume with exactly what was cut off, so that a parser that
            // polls again after None sees a plausible continuation
            if let (Some(k), true) = (plan.eof_at, rng.chance(1, 2)) {
                plan.resume = plan.kinds[k..].iter().copied().take(6).collect();
            }
            if plan.resume.is_empty() {
                plan.resume = (0..len).map(|_| rng.below(nt)).collect();
            }
        }
        if en_panic {
            let v = self.reference.judge(plan.effective());
            let needed = needed_pulls(&v, plan.effective().len());
            plan.panic_at = Some(match rng.below(4) {
                0 | 1 => needed + 1, // tripwire right behind the reported token
                2 => needed + 2,
                _ => rng.range(1, needed + 2),
            });
        }
    }

    pub fn draw(&self, rng: &mut Rng, faulty: bool) -> Drawn {
        let mut edits_applied = vec![];
        let (kinds, origin) = self.draw_kinds(rng, &mut edits_applied);
        let mut plan = Plan::plain(kinds);
        plan.hint = *rng.pick(&[Hint::Default, Hint::Default, Hint::Exact, Hint::LowerOnly, Hint::UpperLoose]);
        let mut sc = Scenario::single(plan);
        if faulty {
            self.add_faults(&mut sc.a, rng);
            if rng.chance(1, 8) {
                // re-entrant activation from inside A's producer
                let mut e = vec![];
                let (k2, _) = self.draw_kinds(rng, &mut e);
                let v = self.reference.judge(sc.a.effective());
                let needed = needed_pulls(&v, sc.a.effective().len());
                sc.reenter = Some((rng.range(1, needed), Plan::plain(k2)));
            }
            if rng.chance(1, 10) {
                // second activation on another thread, interleaved at pull granularity
                let mut e = vec![];
                let (k2, _) = self.draw_kinds(rng, &mut e);
                let mut b = Plan::plain(k2);
                if rng.chance(1, 2) {
                    self.add_faults(&mut b, rng);
                }
                let len = sc.a.kinds.len() + b.kinds.len() + 4;
                sc.schedule = match rng.below(4) {
                    0 => vec![],                                              // A first, then B
                    1 => vec![1; len],                                        // B first, then A
                    2 => (0..len).map(|i| (i % 2) as u8).collect(),           // strict alternation
                    _ => (0..len).map(|_| rng.below(2) as u8).collect(),      // seeded random
                };
                sc.b = Some(b);
            }
        }
        Drawn { sc, origin, edits: edits_applied }
    }
}

// --------------------------------------------------------------------- main

fn usage() -> ! {
    eprintln!("usage: <bin> run --seed S --item K --faultfree N --faulty M --maxlen L --out FILE | replay FILE | judge FILE");
    std::process::exit(2);
}

fn arg_val(args: &[String], name: &str) -> Option<String> {
    args.iter().position(|a| a == name).and_then(|i| args.get(i + 1)).cloned()
}

fn start_watchdog(out_path: Option<String>) {
    std::thread::spawn(move || {
        let mut last = WATCH_PROGRESS.load(Ordering::SeqCst);
        let mut stale = 0u32;
        loop {
            std::thread::sleep(std::time::Duration::from_millis(500));
            let cur = WATCH_PROGRESS.load(Ordering::SeqCst);
            if cur == last && WATCH_IN_RUN.load(Ordering::SeqCst) {
                stale += 1;
            } else {
                stale = 0;
                last = cur;
            }
            if stale >= 20 {
                let plan = WATCH_PLAN.lock().map(|p| p.clone()).ok().flatten().unwrap_or_default();
                let j = J::obj().set("hang", J::Bool(true)).set("plan_json", J::str(&plan));
                if let Some(p) = &out_path {
                    let _ = std::fs::write(format!("{p}.hang"), j.to_string());
                }
                println!("HANG {}", j.to_string());
                std::process::exit(3);
            }
        }
    });
}

pub fn self_check(g: &Grammar, an: &Analysis, reference: &Reference, seed: u64, item: u64) -> Result<usize, String> {
    let mut rng = Rng::derive(seed, &[ENGINE_B, item, 0xC0FFEE]);
    let mut done = 0;
    if !reference.productive {
        // the Earley / fixpoint pair judge "extendable to a sentence", which is not what C03
        // prescribes for such grammars; only the canonical LR(1) reference applies here
        if an.productive[g.start] {
            for _ in 0..40 {
                let budget = rng.range(1, 7);
                let s = an.sample_sentence(g.start, &mut rng, budget, 48);
                let v = reference.judge(&s);
                if !v.sentence {
                    return Err(format!("canonical LR(1) reference rejects a derived sentence {:?}: {:?}", s, v));
                }
                done += 1;
            }
        }
        return Ok(done);
    }
    // (1) every derived sentence is recognised (by Earley and, through `judge`, by LR(1))
    for _ in 0..40 {
        let budget = rng.range(1, 7);
        let s = an.sample_sentence(g.start, &mut rng, budget, 48);
        let v = reference.judge(&s);
        if !v.sentence {
            return Err(format!("reference model rejects a derived sentence {:?}: {:?}", s, v));
        }
        done += 1;
    }
    // (2) Earley vs independent fixpoint recogniser on short streams of small grammars
    if g.nts.len() <= 8 && an.rules.len() <= 20 && !g.terms.is_empty() {
        for k in 0..60 {
            let mut s = if k % 2 == 0 {
                an.sample_sentence(g.start, &mut rng, 3, 7)
            } else {
                (0..rng.range(0, 6)).map(|_| rng.below(g.terms.len())).collect()
            };
            if k % 4 == 0 {
                edits::edit(&mut s, g.terms.len(), &[], &mut rng);
            }
            s.truncate(8);
            let a = reference.judge(&s);
            let b = Fixpoint::judge(g, &s);
            if a != b {
                return Err(format!("Earley {:?} and fixpoint {:?} disagree on {:?}", a, b, s));
            }
            done += 1;
        }
    }
    Ok(done)
}

fn exec_json(reference: &Reference, sc: &Scenario, so: &ScenarioObs) -> J {
    let refj = |p: &Plan| {
        let v = reference.judge(p.effective());
        J::obj()
            .set("sentence", J::Bool(v.sentence))
            .set("first_bad", v.first_bad.map(J::uz).unwrap_or(J::Null))
            .set("needed_pulls", J::uz(needed_pulls(&v, p.effective().len())))
    };
    let mut reference_j = J::obj().set("A", refj(&sc.a));
    let mut observed = J::obj().set("A", so.a.to_json());
    if !so.inner.is_empty() {
        reference_j.put("inner", refj(&so.inner[0].0));
        observed.put("inner", so.inner[0].1.to_json());
    }
    if let (Some(p), Some(o)) = (&sc.b, &so.b) {
        reference_j.put("B", refj(p));
        observed.put("B", o.to_json());
        observed.put("schedule_used", J::Arr(so.schedule_used.iter().map(|x| J::uz(*x as usize)).collect()));
    }
    J::obj().set("plan", sc.to_json()).set("reference", reference_j).set("observed", observed)
}

/// Parameters of one exploration of one grammar.
pub struct Explore {
    pub seed: u64,
    pub item: u64,
    pub n_ff: usize,
    pub n_f: usize,
    pub from: usize,
    pub maxlen: usize,
    pub emitted_states: usize,
    pub self_checks: usize,
    /// at most this many violations are minimised and written out per grammar
    pub max_violations: usize,
}

/// Runs `n_ff` fault-free and `n_f` fault-injecting scenarios against `glue.run_parse` and
/// returns the grammar's summary. If `shadow` is given (the table interpreter), activation A of
/// every scenario is also executed on it and the two observations are compared
/// (`shadow_disagreements`, expected 0: the interpreter mirrors the emitted driver).
pub fn explore(
    glue: &Glue,
    g: &Grammar,
    an: &Analysis,
    reference: &Reference,
    params: &Explore,
    shadow: Option<&ParseFn>,
) -> J {
    let (seed, item, n_ff, n_f, from, maxlen, emitted_states, sc_done) =
        (params.seed, params.item, params.n_ff, params.n_f, params.from, params.maxlen, params.emitted_states, params.self_checks);
    let mut shadow_runs = 0usize;
    let mut shadow_disagreements = 0usize;
    let mut shadow_sample: Option<J> = None;
    let w = Workload { g, an, reference, maxlen };
    let mut digest = Fnv::new();
    let mut notes = Notes::default();
    let mut distinct = std::collections::HashSet::new();
    let mut distinct_nonsentence = std::collections::HashSet::new();
    let mut violations: Vec<J> = vec![];
    let mut samples: Vec<J> = vec![];
    let mut history: std::collections::VecDeque<Plan> = std::collections::VecDeque::new();
    let mut c = std::collections::BTreeMap::<&'static str, usize>::new();
    let bump = |k: &'static str, c: &mut std::collections::BTreeMap<&'static str, usize>| {
        *c.entry(k).or_insert(0) += 1;
    };
    let total = n_ff + n_f;
    for r in 0..total {
        let faulty = r >= n_ff;
        let run_no = (from + r) as u64;
        let mut rng = Rng::derive(seed, &[ENGINE_B, item, run_no, faulty as u64]);
        let d = w.draw(&mut rng, faulty);
        let sc = d.sc;
        let so = execute(glue, &sc);
        let judged = check_scenario(reference, &sc, &so, &mut notes);
        if let Some(sh) = shadow {
            // the table interpreter runs A's plan on its own; activations are independent, so
            // its observation must equal the real parser's observation of A
            let (o, _) = run_activation(sh, &sc.a, None, None, 0);
            shadow_runs += 1;
            if o.tag != so.a.tag || o.pulls != so.a.pulls || o.pulls_after_end != so.a.pulls_after_end {
                shadow_disagreements += 1;
                if shadow_sample.is_none() {
                    shadow_sample = Some(
                        J::obj()
                            .set("plan", sc.a.to_json())
                            .set("real", so.a.to_json())
                            .set("table_interpreter", o.to_json()),
                    );
                }
            }
        }
        let v = judged.va;
        let x = &so.a;
        let plan = &sc.a;
        // event log digest
        digest.u64(run_no);
        digest.str(&sc.to_json().to_string());
        digest.str(&x.tag.to_json().to_string());
        digest.u64(x.pulls as u64);
        for e in &x.events {
            digest.str(&format!("{:?}", e));
        }
        for (_, o) in &so.inner {
            digest.str(&o.tag.to_json().to_string());
            for e in &o.events {
                digest.str(&format!("{:?}", e));
            }
        }
        if let Some(o) = &so.b {
            digest.str(&o.tag.to_json().to_string());
            for e in &o.events {
                digest.str(&format!("{:?}", e));
            }
            for s in &so.schedule_used {
                digest.u64(*s as u64);
            }
        }
        let pd = sc.digest();
        distinct.insert(pd);
        bump(if faulty { "runs_faulty" } else { "runs_faultfree" }, &mut c);
        match d.origin {
            "derivation" => bump("origin_derivation", &mut c),
            "random" => bump("origin_random", &mut c),
            "prefix" => bump("origin_prefix", &mut c),
            _ => bump("origin_lr_walk", &mut c),
        }
        let n = plan.effective().len();
        if v.sentence {
            bump("sentence", &mut c);
        } else {
            distinct_nonsentence.insert(pd);
            match v.first_bad {
                Some(0) => bump("first_bad_at_0", &mut c),
                Some(i) if i + 1 == n => bump("first_bad_at_last", &mut c),
                Some(_) => bump("first_bad_in_middle", &mut c),
                None => bump("viable_prefix_err_none", &mut c),
            }
            if v.first_bad.is_none() && n == 0 {
                bump("empty_input_not_sentence", &mut c);
            }
            if let Some(i) = v.first_bad {
                if i >= 16 {
                    bump("probe_first_bad_beyond_16_tokens", &mut c);
                }
            }
        }
        // faults that actually took effect
        let needed = needed_pulls(&v, n);
        if let Some(k) = plan.eof_at {
            if x.pulls > k {
                bump("fired_eof_at", &mut c);
                if v.first_bad.is_none() && !v.sentence {
                    bump("probe_eof_inside_construct", &mut c);
                }
            }
        }
        if !plan.resume.is_empty() {
            bump("armed_resume_after_eof", &mut c);
            if x.events.iter().any(|e| matches!(e, Ev::End)) {
                bump("fired_resume_armed_and_end_reached", &mut c);
            }
            if x.pulls_after_end > 0 {
                bump("observed_pull_after_end", &mut c);
            }
        }
        if let Some(p) = plan.panic_at {
            if p <= needed {
                bump("fired_panic_reached", &mut c);
                if x.events.iter().any(|e| matches!(e, Ev::Drop(_))) {
                    bump("probe_panic_with_tokens_on_stack", &mut c);
                }
            } else {
                bump("armed_panic_tripwire", &mut c);
            }
        }
        if sc.reenter.is_some() || !so.inner.is_empty() {
            if so.inner.is_empty() {
                bump("armed_reenter_not_reached", &mut c);
            } else {
                bump("fired_reenter", &mut c);
            }
        }
        if so.b.is_some() {
            bump("fired_second_activation", &mut c);
            let switches = so.schedule_used.windows(2).filter(|w| w[0] != w[1]).count();
            if switches >= 2 {
                bump("probe_interleaved_with_2plus_switches", &mut c);
            }
        }
        if x.size_hint_calls > 0 {
            bump("size_hint_called", &mut c);
        }
        match plan.hint {
            Hint::Default => {}
            _ => bump("nondefault_size_hint", &mut c),
        }
        match &x.tag {
            Tag::Ok => bump("result_ok", &mut c),
            Tag::ErrSome { .. } => bump("result_err_some", &mut c),
            Tag::ErrNone => bump("result_err_none", &mut c),
            Tag::ProducerPanic(_) => bump("result_producer_panic", &mut c),
            Tag::OtherPanic(_) => bump("result_other_panic", &mut c),
        }
        if samples.len() < 3 && !v.sentence && (r % 7 == 3 || r + 1 == total) {
            samples.push(
                exec_json(reference, &sc, &so)
                    .set("origin", J::str(d.origin))
                    .set("edits", J::Arr(d.edits.iter().map(|e| J::str(e)).collect())),
            );
        }
        if let Some(viol) = judged.violation {
            if violations.len() < params.max_violations {
                let (small, steps) = shrink(glue, reference, &sc, viol.class, 3000);
                let sso = execute(glue, &small);
                let mut n2 = Notes::default();
                let sviol = check_scenario(reference, &small, &sso, &mut n2).violation;
                let mut with_history = sc.clone();
                with_history.history = history.iter().cloned().collect();
                violations.push(
                    J::obj()
                        .set("class", J::str(viol.class))
                        .set("activation", J::str(viol.who))
                        .set("detail", J::str(&viol.detail))
                        .set("run", J::Int(run_no as i128))
                        .set("faulty", J::Bool(faulty))
                        .set("original", exec_json(reference, &with_history, &so))
                        .set("minimised", exec_json(reference, &small, &sso))
                        .set(
                            "minimised_detail",
                            J::str(&sviol.map(|v| v.detail).unwrap_or_default()),
                        )
                        .set("shrink_steps", J::uz(steps)),
                );
            } else {
                bump("violations_not_minimised", &mut c);
            }
            bump("violations", &mut c);
        }
        history.push_back(sc.a.clone());
        if history.len() > 24 {
            history.pop_front();
        }
    }
    let mut counters = J::obj();
    for (k, v) in &c {
        counters.put(k, J::uz(*v));
    }
    let mut shape = J::obj();
    for (k, v) in an.shape() {
        shape.put(k, J::Bool(if k == "ten_or_more_terminals" { g.terms.len() >= 10 } else { v }));
    }
    shape.put("more_than_64_terminals", J::Bool(g.terms.len() > 64));
    shape.put("more_than_64_nonterminals", J::Bool(g.nts.len() > 64));
    let rules = g.rules();
    let longest = rules.iter().map(|r| r.rhs.len()).max().unwrap_or(0);
    shape.put("rule_with_10_or_more_fields", J::Bool(longest >= 10));
    shape.put("rule_with_17_or_more_fields", J::Bool(longest >= 17));
    shape.put("more_than_64_rules", J::Bool(rules.len() > 64));
    shape.put("more_than_255_rules", J::Bool(rules.len() > 255));
    let emitted_states = emitted_states;
    shape.put("emitted_states", J::uz(emitted_states));
    shape.put(
        "lalr_merged_distinct_lr1_states",
        J::Bool(reference.lr1_states > emitted_states && emitted_states > 0),
    );
    let summary = J::obj()
        .set("item", J::Int(item as i128))
        .set("family", J::str(&g.family))
        .set("shape", shape)
        .set("all_productive", J::Bool(reference.productive))
        .set("lr1_states", J::uz(reference.lr1_states))
        .set("runs", J::uz(total))
        .set("self_checks", J::uz(sc_done))
        .set("distinct_plans", J::uz(distinct.len()))
        .set("distinct_nonsentence_plans", J::uz(distinct_nonsentence.len()))
        .set("digest", J::str(&format!("{:016x}", digest.0)))
        .set("counters", counters)
        .set(
            "notes",
            J::obj()
                .set("sentence_rejected", J::uz(notes.sentence_rejected))
                .set("sentence_overpull", J::uz(notes.sentence_overpull))
                .set("sentence_panic", J::uz(notes.sentence_panic))
                .set("leaked_tokens_runs", J::uz(notes.leaked_tokens))
                .set("producer_not_dropped_runs", J::uz(notes.producer_not_dropped))
                .set("producer_panic_swallowed", J::uz(notes.producer_panic_swallowed))
                .set("producer_panic_propagated", J::uz(notes.producer_panic_propagated))
                .set("underpull_correct_result", J::uz(notes.underpull_correct_result)),
        )
        .set("samples", J::Arr(samples))
        .set("violations", J::Arr(violations));
    summary
        .set("shadow_runs", J::uz(shadow_runs))
        .set("shadow_disagreements", J::uz(shadow_disagreements))
        .set("shadow_disagreement_sample", shadow_sample.unwrap_or(J::Null))
}

pub fn main(glue: &Glue) {
    let args: Vec<String> = std::env::args().collect();
    if args.len() < 2 {
        usage();
    }
    std::panic::set_hook(Box::new(|_| {}));
    let model = J::parse(glue.model_json).expect("model json");
    let g = Grammar::from_json(&model).expect("model");
    let an = Analysis::new(&g);
    let reference = match Reference::new(&g, &an) {
        Ok(r) => r,
        Err(e) => {
            // not a violation and not a harness failure: this grammar has no reference model
            println!("{}", J::obj().set("skipped", J::str(&e)).to_string());
            std::process::exit(4);
        }
    };
    match args[1].as_str() {
        "run" => {
            let seed: u64 = arg_val(&args, "--seed").and_then(|s| s.parse().ok()).unwrap_or(1);
            let item: u64 = arg_val(&args, "--item").and_then(|s| s.parse().ok()).unwrap_or(0);
            let n_ff: usize = arg_val(&args, "--faultfree").and_then(|s| s.parse().ok()).unwrap_or(100);
            let n_f: usize = arg_val(&args, "--faulty").and_then(|s| s.parse().ok()).unwrap_or(100);
            let from: usize = arg_val(&args, "--from").and_then(|s| s.parse().ok()).unwrap_or(0);
            let maxlen: usize = arg_val(&args, "--maxlen").and_then(|s| s.parse().ok()).unwrap_or(64);
            let out = arg_val(&args, "--out");
            start_watchdog(out.clone());
            let sc_done = match self_check(&g, &an, &reference, seed, item) {
                Ok(n) => n,
                Err(e) => {
                    eprintln!("harness error: reference self-check failed: {e}");
                    std::process::exit(2);
                }
            };
            let emitted_states = model.get("emitted_states").and_then(|x| x.as_usize()).unwrap_or(0);
            let shadow: Option<ParseFn> = match crate::tables::TableParser::from_emitted(glue.emitted, &g) {
                Ok(tp) => Some(tp.into_parse_fn()),
                Err(e) => {
                    eprintln!("note: table interpreter unavailable for this grammar: {e}");
                    None
                }
            };
            let summary = explore(
                glue,
                &g,
                &an,
                &reference,
                &Explore { seed, item, n_ff, n_f, from, maxlen, emitted_states, self_checks: sc_done, max_violations: 3 },
                shadow.as_ref(),
            );
            let text = summary.to_string();
            match out {
                Some(p) => std::fs::write(p, text).expect("write summary"),
                None => println!("{text}"),
            }
        }
        "replay" => {
            start_watchdog(None);
            let file = args.get(2).cloned().unwrap_or_else(|| usage());
            let txt = std::fs::read_to_string(&file).expect("read plan");
            let j = J::parse(&txt).expect("plan json");
            let sc = Scenario::from_json(j.get("plan").unwrap_or(&j)).expect("scenario");
            // call history first (same thread, same process), results ignored
            for h in &sc.history {
                let _ = execute(glue, &Scenario::single(h.clone()));
            }
            let so = execute(glue, &sc);
            let mut notes = Notes::default();
            let viol = check_scenario(&reference, &sc, &so, &mut notes).violation;
            let mut o = exec_json(&reference, &sc, &so);
            match &viol {
                Some(v) => {
                    o.put("violation", J::str(v.class));
                    o.put("activation", J::str(v.who));
                    o.put("detail", J::str(&v.detail));
                }
                None => o.put("violation", J::Null),
            }
            let evs: Vec<J> = so.a.events.iter().map(|e| J::str(&format!("{:?}", e))).collect();
            o.put("event_log_A", J::Arr(evs));
            if let Some(b) = &so.b {
                o.put("event_log_B", J::Arr(b.events.iter().map(|e| J::str(&format!("{:?}", e))).collect()));
            }
            println!("{}", o.to_string());
            std::process::exit(if viol.is_some() { 1 } else { 0 });
        }
        "judge" => {
            // reference verdict only (never calls the parser): used to classify a hang
            let file = args.get(2).cloned().unwrap_or_else(|| usage());
            let txt = std::fs::read_to_string(&file).expect("read plan");
            let j = J::parse(&txt).expect("plan json");
            let sc = Scenario::from_json(j.get("plan").unwrap_or(&j)).expect("scenario");
            let v = reference.judge(sc.a.effective());
            let mut all_sentences = v.sentence;
            if let Some((_, p)) = &sc.reenter {
                all_sentences &= reference.judge(p.effective()).sentence;
            }
            if let Some(p) = &sc.b {
                all_sentences &= reference.judge(p.effective()).sentence;
            }
            println!(
                "{}",
                J::obj()
                    .set("sentence", J::Bool(all_sentences))
                    .set("first_bad", v.first_bad.map(J::uz).unwrap_or(J::Null))
                    .to_string()
            );
        }
        _ => usage(),
    }
}
