//! Reference model for C03: an Earley recogniser over the *declared* grammar.
//! Shares nothing with what kiki computes (no FIRST/FOLLOW, no LR automaton).
//!
//! For a grammar in which every nonterminal is productive, a prefix `p` can be
//! extended to a sentence iff the Earley set after `p` is non-empty, and `p` is
//! a sentence iff that set holds the completed augmented item.
//!
//! `Fixpoint` is a second, independent recogniser (least-fixpoint tables over
//! substrings) used only to self-check Earley on short inputs.

use crate::grammar::{Analysis, Grammar, Rule, Sym};

#[derive(Clone, Copy, Debug, PartialEq, Eq)]
pub struct Verdict {
    pub sentence: bool,
    /// least i such that kinds[0..=i] cannot be extended to a sentence
    pub first_bad: Option<usize>,
}

pub struct Earley {
    rules: Vec<Rule>,     // rule 0 is the augmented rule S' -> S
    rules_of: Vec<Vec<usize>>, // indexed by nonterminal (augmented nonterminal = n)
    nullable: Vec<bool>,
    n_nts: usize,
}

#[derive(Clone, Copy, PartialEq, Eq, Hash, Debug)]
struct Item {
    rule: u32,
    dot: u32,
    origin: u32,
}

impl Earley {
    pub fn new(g: &Grammar) -> Earley {
        let an = Analysis::new(g);
        let n = g.nts.len();
        let mut rules = vec![Rule { lhs: n, rhs: vec![Sym::N(g.start)] }];
        rules.extend(an.rules.iter().cloned());
        let mut rules_of = vec![vec![]; n + 1];
        for (i, r) in rules.iter().enumerate() {
            rules_of[r.lhs].push(i);
        }
        let mut nullable = an.nullable.clone();
        nullable.push(an.nullable[g.start]);
        Earley { rules, rules_of, nullable, n_nts: n }
    }

    fn add(set: &mut Vec<Item>, seen: &mut std::collections::HashSet<Item>, it: Item) {
        if seen.insert(it) {
            set.push(it);
        }
    }

    /// Runs the recogniser over `kinds` and returns, per prefix length 0..=n
    /// reached, whether the set was non-empty and whether it accepts.
    /// Stops at the first empty set.
    pub fn judge(&self, kinds: &[usize]) -> Verdict {
        let n = kinds.len();
        let mut sets: Vec<Vec<Item>> = Vec::with_capacity(n + 1);
        let mut cur: Vec<Item> = vec![];
        let mut seen = std::collections::HashSet::new();
        Self::add(&mut cur, &mut seen, Item { rule: 0, dot: 0, origin: 0 });
        let mut i = 0usize;
        loop {
            // closure of set i (predict + complete)
            let mut k = 0;
            while k < cur.len() {
                let it = cur[k];
                k += 1;
                let r = &self.rules[it.rule as usize];
                if (it.dot as usize) < r.rhs.len() {
                    if let Sym::N(b) = r.rhs[it.dot as usize] {
                        for ri in &self.rules_of[b] {
                            Self::add(
                                &mut cur,
                                &mut seen,
                                Item { rule: *ri as u32, dot: 0, origin: i as u32 },
                            );
                        }
                        if self.nullable[b] {
                            Self::add(
                                &mut cur,
                                &mut seen,
                                Item { rule: it.rule, dot: it.dot + 1, origin: it.origin },
                            );
                        }
                    }
                } else {
                    // complete
                    let lhs = r.lhs;
                    let origin = it.origin as usize;
                    if origin == i {
                        // items of the current set: iterate by index (set may grow);
                        // nullable completions are also covered by the predict rule
                        let mut m = 0;
                        while m < cur.len() {
                            let p = cur[m];
                            m += 1;
                            let pr = &self.rules[p.rule as usize];
                            if (p.dot as usize) < pr.rhs.len() && pr.rhs[p.dot as usize] == Sym::N(lhs) {
                                Self::add(
                                    &mut cur,
                                    &mut seen,
                                    Item { rule: p.rule, dot: p.dot + 1, origin: p.origin },
                                );
                            }
                        }
                    } else {
                        let parents: Vec<Item> = sets[origin]
                            .iter()
                            .copied()
                            .filter(|p| {
                                let pr = &self.rules[p.rule as usize];
                                (p.dot as usize) < pr.rhs.len() && pr.rhs[p.dot as usize] == Sym::N(lhs)
                            })
                            .collect();
                        for p in parents {
                            Self::add(
                                &mut cur,
                                &mut seen,
                                Item { rule: p.rule, dot: p.dot + 1, origin: p.origin },
                            );
                        }
                    }
                }
            }
            if i == n {
                let accept = cur.iter().any(|it| it.rule == 0 && it.dot == 1 && it.origin == 0);
                return Verdict { sentence: accept, first_bad: None };
            }
            // scan
            let tok = kinds[i];
            let mut next: Vec<Item> = vec![];
            let mut nseen = std::collections::HashSet::new();
            for it in &cur {
                let r = &self.rules[it.rule as usize];
                if (it.dot as usize) < r.rhs.len() && r.rhs[it.dot as usize] == Sym::T(tok) {
                    Self::add(
                        &mut next,
                        &mut nseen,
                        Item { rule: it.rule, dot: it.dot + 1, origin: it.origin },
                    );
                }
            }
            if next.is_empty() {
                return Verdict { sentence: false, first_bad: Some(i) };
            }
            sets.push(std::mem::take(&mut cur));
            cur = next;
            seen = nseen;
            i += 1;
        }
    }

    pub fn n_nts(&self) -> usize {
        self.n_nts
    }
}

/// Independent recogniser by least fixpoint over substring tables.
/// `derives[a][i][j]`: nonterminal a derives kinds[i..j].
/// `prefix[a][i]`: kinds[i..n] is a prefix of some string derived from a
/// (assuming every nonterminal is productive).
pub struct Fixpoint;

impl Fixpoint {
    pub fn judge(g: &Grammar, kinds: &[usize]) -> Verdict {
        // first_bad = least i such that prefix kinds[0..=i] is not viable
        let mut first_bad = None;
        for len in 1..=kinds.len() {
            if !Self::viable(g, &kinds[..len]) {
                first_bad = Some(len - 1);
                break;
            }
        }
        let sentence = first_bad.is_none() && Self::derives_all(g, kinds);
        Verdict { sentence, first_bad }
    }

    fn table(g: &Grammar, w: &[usize]) -> Vec<Vec<Vec<bool>>> {
        let n = w.len();
        let rules = g.rules();
        let mut d = vec![vec![vec![false; n + 1]; n + 1]; g.nts.len()];
        loop {
            let mut changed = false;
            for r in &rules {
                for i in 0..=n {
                    // positions reachable after matching rhs[0..k] starting at i
                    let mut pos = vec![false; n + 1];
                    pos[i] = true;
                    for s in &r.rhs {
                        let mut np = vec![false; n + 1];
                        for p in 0..=n {
                            if !pos[p] {
                                continue;
                            }
                            match s {
                                Sym::T(t) => {
                                    if p < n && w[p] == *t {
                                        np[p + 1] = true;
                                    }
                                }
                                Sym::N(b) => {
                                    for q in p..=n {
                                        if d[*b][p][q] {
                                            np[q] = true;
                                        }
                                    }
                                }
                            }
                        }
                        pos = np;
                    }
                    for j in i..=n {
                        if pos[j] && !d[r.lhs][i][j] {
                            d[r.lhs][i][j] = true;
                            changed = true;
                        }
                    }
                }
            }
            if !changed {
                return d;
            }
        }
    }

    fn derives_all(g: &Grammar, w: &[usize]) -> bool {
        let d = Self::table(g, w);
        d[g.start][0][w.len()]
    }

    fn viable(g: &Grammar, w: &[usize]) -> bool {
        let n = w.len();
        let d = Self::table(g, w);
        let rules = g.rules();
        // pre[a][i]: w[i..n] is a (possibly empty) prefix of a string derived from a.
        // With all nonterminals productive pre[a][n] is true for every a.
        let mut pre = vec![vec![false; n + 1]; g.nts.len()];
        for a in 0..g.nts.len() {
            pre[a][n] = true;
        }
        loop {
            let mut changed = false;
            for r in &rules {
                for i in 0..n {
                    if pre[r.lhs][i] {
                        continue;
                    }
                    // match rhs[0..k] exactly to w[i..p], then rhs[k] covers the rest as a prefix
                    let mut pos = vec![false; n + 1];
                    pos[i] = true;
                    let mut ok = false;
                    for s in &r.rhs {
                        // can this symbol absorb the remainder as a prefix?
                        for p in 0..=n {
                            if !pos[p] {
                                continue;
                            }
                            if p == n {
                                ok = true; // everything consumed; the rest is productive
                            }
                            if let Sym::N(b) = s {
                                if pre[*b][p] {
                                    ok = true;
                                }
                            }
                        }
                        if ok {
                            break;
                        }
                        let mut np = vec![false; n + 1];
                        for p in 0..=n {
                            if !pos[p] {
                                continue;
                            }
                            match s {
                                Sym::T(t) => {
                                    if p < n && w[p] == *t {
                                        np[p + 1] = true;
                                    }
                                }
                                Sym::N(b) => {
                                    for q in p..=n {
                                        if d[*b][p][q] {
                                            np[q] = true;
                                        }
                                    }
                                }
                            }
                        }
                        pos = np;
                    }
                    // after the whole rhs: only an exact match to the end counts,
                    // which is the p == n case once all symbols are consumed
                    if !ok && pos[n] {
                        ok = true;
                    }
                    if ok {
                        pre[r.lhs][i] = true;
                        changed = true;
                    }
                }
            }
            if !changed {
                break;
            }
        }
        pre[g.start][0]
    }
}
