//! Counter-based seeding (splitmix64) + xoshiro256** stream.
//!
//! `Rng::derive(verif_seed, &[engine, item, run])` is the only constructor the
//! engines use, so what a run does never depends on which worker executed it or
//! on what ran before it.

#[derive(Clone, Debug)]
pub struct Rng {
    s: [u64; 4],
}

pub fn splitmix64(state: &mut u64) -> u64 {
    *state = state.wrapping_add(0x9E37_79B9_7F4A_7C15);
    let mut z = *state;
    z = (z ^ (z >> 30)).wrapping_mul(0xBF58_476D_1CE4_E5B9);
    z = (z ^ (z >> 27)).wrapping_mul(0x94D0_49BB_1331_11EB);
    z ^ (z >> 31)
}

/// Mixes a path of integers into one 64-bit value (order-sensitive).
pub fn mix(seed: u64, path: &[u64]) -> u64 {
    let mut st = seed ^ 0x6A09_E667_F3BC_C908;
    let mut acc = splitmix64(&mut st);
    for (i, p) in path.iter().enumerate() {
        st ^= p.wrapping_mul(0xD6E8_FEB8_6659_FD93).rotate_left((i as u32 * 7 + 13) % 64);
        st = st.wrapping_add(acc);
        acc ^= splitmix64(&mut st);
    }
    acc
}

impl Rng {
    pub fn from_u64(seed: u64) -> Rng {
        let mut st = seed;
        let mut s = [0u64; 4];
        for x in s.iter_mut() {
            *x = splitmix64(&mut st);
        }
        if s == [0, 0, 0, 0] {
            s[0] = 1;
        }
        Rng { s }
    }

    pub fn derive(verif_seed: u64, path: &[u64]) -> Rng {
        Rng::from_u64(mix(verif_seed, path))
    }

    pub fn next_u64(&mut self) -> u64 {
        let result = self.s[1].wrapping_mul(5).rotate_left(7).wrapping_mul(9);
        let t = self.s[1] << 17;
        self.s[2] ^= self.s[0];
        self.s[3] ^= self.s[1];
        self.s[1] ^= self.s[2];
        self.s[0] ^= self.s[3];
        self.s[2] ^= t;
        self.s[3] = self.s[3].rotate_left(45);
        result
    }

    /// Uniform in 0..n (n > 0). Modulo bias is irrelevant here.
    pub fn below(&mut self, n: usize) -> usize {
        debug_assert!(n > 0);
        (self.next_u64() % (n as u64)) as usize
    }

    /// Uniform in lo..=hi.
    pub fn range(&mut self, lo: usize, hi: usize) -> usize {
        lo + self.below(hi - lo + 1)
    }

    /// True with probability num/den.
    pub fn chance(&mut self, num: usize, den: usize) -> bool {
        self.below(den) < num
    }

    pub fn pick<'a, T>(&mut self, xs: &'a [T]) -> &'a T {
        &xs[self.below(xs.len())]
    }

    pub fn shuffle<T>(&mut self, xs: &mut [T]) {
        for i in (1..xs.len()).rev() {
            let j = self.below(i + 1);
            xs.swap(i, j);
        }
    }

    /// Index drawn according to integer weights (at least one weight > 0).
    pub fn weighted(&mut self, weights: &[usize]) -> usize {
        let total: usize = weights.iter().sum();
        let mut x = self.below(total);
        for (i, w) in weights.iter().enumerate() {
            if x < *w {
                return i;
            }
            x -= *w;
        }
        weights.len() - 1
    }
}

/// 64-bit FNV-1a, used for event-log digests inside the Rust binaries.
#[derive(Clone, Copy, Debug)]
pub struct Fnv(pub u64);

impl Default for Fnv {
    fn default() -> Self {
        Fnv(0xcbf2_9ce4_8422_2325)
    }
}

impl Fnv {
    pub fn new() -> Fnv {
        Fnv::default()
    }
    pub fn bytes(&mut self, b: &[u8]) {
        for x in b {
            self.0 ^= *x as u64;
            self.0 = self.0.wrapping_mul(0x0000_0100_0000_01B3);
        }
    }
    pub fn str(&mut self, s: &str) {
        self.bytes(s.as_bytes());
        self.bytes(&[0xff]);
    }
    pub fn u64(&mut self, x: u64) {
        self.bytes(&x.to_le_bytes());
    }
}

pub fn fnv_str(s: &str) -> u64 {
    let mut f = Fnv::new();
    f.bytes(s.as_bytes());
    f.0
}
