pub mod earley;
pub mod edits;
pub mod gen;
pub mod grammar;
pub mod json;
pub mod rng;
pub mod streamrt;
pub mod texts;
