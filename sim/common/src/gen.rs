//! Seeded workload-grammar generator: families of context-free grammars
//! (as raw CFGs), then a decoration pass that chooses struct/enum, fieldset
//! shapes, `_` patterns, attributes and (sometimes) names equal to the
//! emitter's internal names.

use crate::grammar::*;
use crate::rng::Rng;

#[derive(Clone, Debug)]
pub struct Cfg {
    pub family: String,
    pub nts: Vec<String>,
    pub terms: Vec<String>,
    pub rules: Vec<(usize, Vec<Sym>)>,
    pub start: usize,
}

impl Cfg {
    pub fn new(family: &str) -> Cfg {
        Cfg { family: family.to_string(), nts: vec![], terms: vec![], rules: vec![], start: 0 }
    }
    pub fn nt(&mut self, name: &str) -> usize {
        let mut n = name.to_string();
        let mut k = 2;
        while self.nts.contains(&n) || self.terms.contains(&n) {
            n = format!("{name}{k}");
            k += 1;
        }
        self.nts.push(n);
        self.nts.len() - 1
    }
    pub fn term(&mut self, name: &str) -> usize {
        let mut n = name.to_string();
        let mut k = 2;
        while self.nts.contains(&n) || self.terms.contains(&n) {
            n = format!("{name}{k}");
            k += 1;
        }
        self.terms.push(n);
        self.terms.len() - 1
    }
    pub fn rule(&mut self, lhs: usize, rhs: Vec<Sym>) {
        if !self.rules.iter().any(|(l, r)| *l == lhs && *r == rhs) {
            self.rules.push((lhs, rhs));
        }
    }
}

use Sym::{N, T};

const ATOMS: &[&str] = &["Ident", "Num", "Str", "Bool", "Atom", "Word", "Sym", "Lit"];
const OPENS: &[(&str, &str)] =
    &[("LParen", "RParen"), ("LSquare", "RSquare"), ("LCurly", "RCurly"), ("Begin", "End"), ("LAngle", "RAngle")];
const SEPS: &[&str] = &["Comma", "Semi", "Pipe", "Colon", "Dot"];
const OPS: &[&str] = &["Plus", "Minus", "Star", "Slash", "Caret", "Amp", "Bar", "Eq", "Lt"];

// ------------------------------------------------------------------ families

/// E -> eps | L_i E R_i | atom_j  (optionally as a sequence of groups)
fn fam_nest(rng: &mut Rng) -> Cfg {
    let mut c = Cfg::new("nest");
    let k = rng.range(1, 3);
    let atoms = rng.range(0, 2);
    if rng.chance(1, 2) {
        let e = c.nt("Expr");
        c.start = e;
        if rng.chance(2, 3) {
            c.rule(e, vec![]);
        }
        for i in 0..k {
            let l = c.term(OPENS[i].0);
            let r = c.term(OPENS[i].1);
            c.rule(e, vec![T(l), N(e), T(r)]);
        }
        for j in 0..atoms {
            let a = c.term(ATOMS[j]);
            c.rule(e, vec![T(a)]);
        }
        if c.rules.iter().all(|(_, r)| r.len() == 3) {
            // no base case: add one
            let a = c.term("Unit");
            c.rule(e, vec![T(a)]);
        }
    } else {
        let s = c.nt("Seq");
        let g = c.nt("Group");
        c.start = s;
        c.rule(s, vec![]);
        if rng.chance(1, 2) {
            c.rule(s, vec![N(s), N(g)]);
        } else {
            c.rule(s, vec![N(g), N(s)]);
        }
        for i in 0..k {
            let l = c.term(OPENS[i].0);
            let r = c.term(OPENS[i].1);
            c.rule(g, vec![T(l), N(s), T(r)]);
        }
        for j in 0..atoms.max(1) {
            let a = c.term(ATOMS[j]);
            c.rule(g, vec![T(a)]);
        }
    }
    c
}

/// Lists: separated / terminated, left / right recursive, optional, delimited.
fn fam_list(rng: &mut Rng) -> Cfg {
    let mut c = Cfg::new("list");
    let w = c.nt("Block");
    let ol = c.nt("OptItems");
    let l = c.nt("Items");
    let it = c.nt("Item");
    c.start = if rng.chance(1, 2) { w } else { ol };
    let (o, cl) = *rng.pick(OPENS);
    let o = c.term(o);
    let cl = c.term(cl);
    c.rule(w, vec![T(o), N(ol), T(cl)]);
    c.rule(ol, vec![]);
    c.rule(ol, vec![N(l)]);
    let sep = c.term(*rng.pick(SEPS));
    match rng.below(4) {
        0 => {
            c.rule(l, vec![N(it)]);
            c.rule(l, vec![N(l), T(sep), N(it)]);
        }
        1 => {
            c.rule(l, vec![N(it)]);
            c.rule(l, vec![N(it), T(sep), N(l)]);
        }
        2 => {
            // terminated
            c.rule(l, vec![N(it), T(sep)]);
            c.rule(l, vec![N(l), N(it), T(sep)]);
        }
        _ => {
            // juxtaposition
            c.rule(l, vec![N(it)]);
            c.rule(l, vec![N(l), N(it)]);
        }
    }
    let na = rng.range(1, 3);
    for j in 0..na {
        let a = c.term(ATOMS[j]);
        c.rule(it, vec![T(a)]);
    }
    if rng.chance(2, 3) {
        c.rule(it, vec![N(w)]);
    }
    if rng.chance(1, 3) {
        // key : value entries
        let colon = c.term("Arrow");
        let k = c.term("Key");
        c.rule(it, vec![T(k), T(colon), N(it)]);
    }
    c
}

/// Optional / nullable nonterminals in the middle of right-hand sides.
fn fam_optmid(rng: &mut Rng) -> Cfg {
    let mut c = Cfg::new("optmid");
    let s = c.nt("Decl");
    c.start = s;
    let head = c.term("Head");
    let tail = c.term("Tail");
    let k = rng.range(1, 4);
    let mut rhs = vec![T(head)];
    for i in 0..k {
        let o = c.nt(&format!("Opt{}", i));
        let t = c.term(&format!("Mod{}", i));
        c.rule(o, vec![]);
        if rng.chance(1, 3) {
            let t2 = c.term(&format!("Arg{}", i));
            c.rule(o, vec![T(t), T(t2)]);
        } else {
            c.rule(o, vec![T(t)]);
        }
        rhs.push(N(o));
        if rng.chance(1, 4) {
            let m = c.term(&format!("Mid{}", i));
            rhs.push(T(m));
        }
    }
    if rng.chance(2, 3) {
        rhs.push(T(tail));
    }
    c.rule(s, rhs);
    if rng.chance(1, 2) {
        // allow a sequence of declarations
        let p = c.nt("Decls");
        c.rule(p, vec![]);
        c.rule(p, vec![N(p), N(s)]);
        c.start = p;
    }
    c
}

/// Operator-precedence chains, one nonterminal per level.
fn fam_expr(rng: &mut Rng) -> Cfg {
    let mut c = Cfg::new("expr");
    let levels = rng.range(1, 4);
    let mut lv = vec![];
    for i in 0..levels {
        lv.push(c.nt(&format!("Level{}", i)));
    }
    let f = c.nt("Factor");
    c.start = lv[0];
    let mut opi = 0;
    for i in 0..levels {
        let next = if i + 1 < levels { lv[i + 1] } else { f };
        c.rule(lv[i], vec![N(next)]);
        let nops = rng.range(1, 2);
        let left_assoc = rng.chance(2, 3);
        for _ in 0..nops {
            let op = c.term(OPS[opi % OPS.len()]);
            opi += 1;
            if left_assoc {
                c.rule(lv[i], vec![N(lv[i]), T(op), N(next)]);
            } else {
                c.rule(lv[i], vec![N(next), T(op), N(lv[i])]);
            }
        }
    }
    let lp = c.term("LParen");
    let rp = c.term("RParen");
    let id = c.term("Ident");
    c.rule(f, vec![T(id)]);
    c.rule(f, vec![T(lp), N(lv[0]), T(rp)]);
    if rng.chance(1, 2) {
        let n = c.term("Num");
        c.rule(f, vec![T(n)]);
    }
    if rng.chance(1, 2) {
        let neg = c.term("Neg");
        c.rule(f, vec![T(neg), N(f)]);
    }
    if rng.chance(1, 3) {
        // call syntax: Factor -> Ident LParen Args RParen  is a conflict with Ident alone? No:
        // after Ident the lookahead LParen decides. Use a distinct callee token to stay LALR.
        let call = c.term("Call");
        let args = c.nt("Args");
        let comma = c.term("Comma");
        c.rule(f, vec![T(call), T(lp), N(args), T(rp)]);
        c.rule(args, vec![]);
        let ne = c.nt("ArgList");
        c.rule(args, vec![N(ne)]);
        c.rule(ne, vec![N(lv[0])]);
        c.rule(ne, vec![N(ne), T(comma), N(lv[0])]);
    }
    c
}

/// The classic LALR(1)-but-not-SLR(1) grammar and variants.
fn fam_lalr_not_slr(rng: &mut Rng) -> Cfg {
    let mut c = Cfg::new("lalr_not_slr");
    let s = c.nt("Stmt");
    let l = c.nt("Lval");
    let r = c.nt("Rval");
    let eq = c.term("Assign");
    let star = c.term("Deref");
    let id = c.term("Ident");
    c.start = s;
    c.rule(s, vec![N(l), T(eq), N(r)]);
    c.rule(s, vec![N(r)]);
    c.rule(l, vec![T(star), N(r)]);
    c.rule(l, vec![T(id)]);
    c.rule(r, vec![N(l)]);
    if rng.chance(1, 2) {
        let lp = c.term("LParen");
        let rp = c.term("RParen");
        c.rule(l, vec![T(lp), N(s), T(rp)]);
    }
    if rng.chance(1, 2) {
        let p = c.nt("Prog");
        let semi = c.term("Semi");
        c.rule(p, vec![]);
        c.rule(p, vec![N(p), N(s), T(semi)]);
        c.start = p;
    }
    c
}

/// Epsilon-only structs sprinkled through a small grammar.
fn fam_eps(rng: &mut Rng) -> Cfg {
    let mut c = Cfg::new("eps");
    let s = c.nt("Top");
    c.start = s;
    let e1 = c.nt("Nothing");
    c.rule(e1, vec![]);
    let e2 = c.nt("Void");
    c.rule(e2, vec![N(e1)]);
    let a = c.term("Alpha");
    let b = c.term("Beta");
    match rng.below(3) {
        0 => {
            c.rule(s, vec![N(e1), T(a), N(e2)]);
            c.rule(s, vec![N(e1), T(b), N(s)]);
        }
        1 => {
            c.rule(s, vec![N(e2)]);
            c.rule(s, vec![T(a), N(s), T(b)]);
        }
        _ => {
            c.rule(s, vec![T(a), N(e1), N(e2), T(b)]);
            c.rule(s, vec![T(a), N(e1), N(e2), T(a), N(s)]);
        }
    }
    c
}

/// A JSON-like grammar (close to the repository example but re-declared here).
fn fam_json(rng: &mut Rng) -> Cfg {
    let mut c = Cfg::new("jsonlike");
    let v = c.nt("Value");
    let o = c.nt("Object");
    let a = c.nt("Array");
    let oe = c.nt("OptEntries");
    let es = c.nt("Entries");
    let e = c.nt("Entry");
    let ol = c.nt("OptElements");
    let ls = c.nt("Elements");
    let (lc, rc, lsq, rsq) = (c.term("LCurly"), c.term("RCurly"), c.term("LSquare"), c.term("RSquare"));
    let (colon, comma, st, nu) = (c.term("Colon"), c.term("Comma"), c.term("Str"), c.term("Num"));
    c.start = if rng.chance(1, 2) { v } else { o };
    c.rule(v, vec![N(o)]);
    c.rule(v, vec![N(a)]);
    c.rule(v, vec![T(st)]);
    c.rule(v, vec![T(nu)]);
    if rng.chance(1, 2) {
        let b = c.term("Bool");
        c.rule(v, vec![T(b)]);
    }
    c.rule(o, vec![T(lc), N(oe), T(rc)]);
    c.rule(oe, vec![]);
    c.rule(oe, vec![N(es)]);
    c.rule(es, vec![N(e)]);
    c.rule(es, vec![N(es), T(comma), N(e)]);
    c.rule(e, vec![T(st), T(colon), N(v)]);
    c.rule(a, vec![T(lsq), N(ol), T(rsq)]);
    c.rule(ol, vec![]);
    c.rule(ol, vec![N(ls)]);
    c.rule(ls, vec![N(v)]);
    c.rule(ls, vec![N(ls), T(comma), N(v)]);
    c
}

/// A small statement language.
fn fam_block(rng: &mut Rng) -> Cfg {
    let mut c = Cfg::new("block");
    let p = c.nt("Stmts");
    let s = c.nt("Stmt");
    let e = c.nt("Cond");
    c.start = p;
    let (id, asg, semi) = (c.term("Ident"), c.term("Assign"), c.term("Semi"));
    let (lb, rb) = (c.term("LCurly"), c.term("RCurly"));
    let (wh, lp, rp) = (c.term("While"), c.term("LParen"), c.term("RParen"));
    c.rule(p, vec![]);
    c.rule(p, vec![N(p), N(s)]);
    c.rule(s, vec![T(id), T(asg), N(e), T(semi)]);
    c.rule(s, vec![T(lb), N(p), T(rb)]);
    c.rule(s, vec![T(wh), T(lp), N(e), T(rp), N(s)]);
    if rng.chance(1, 2) {
        // if-else with mandatory else (no dangling-else ambiguity)
        let (iff, els) = (c.term("If"), c.term("Else"));
        c.rule(s, vec![T(iff), T(lp), N(e), T(rp), N(s), T(els), N(s)]);
    }
    c.rule(e, vec![T(id)]);
    let num = c.term("Num");
    c.rule(e, vec![T(num)]);
    if rng.chance(1, 2) {
        let not = c.term("Not");
        c.rule(e, vec![T(not), N(e)]);
    }
    c
}

/// Random small CFG; kiki itself filters out the ones with conflicts.
fn fam_random(rng: &mut Rng) -> Cfg {
    let mut c = Cfg::new("random");
    let n = rng.range(1, 6);
    let t = rng.range(1, 6);
    for i in 0..n {
        c.nt(&format!("R{}", i));
    }
    for i in 0..t {
        c.term(&format!("K{}", i));
    }
    c.start = 0;
    for a in 0..n {
        let k = rng.range(1, 3);
        for _ in 0..k {
            let len = rng.weighted(&[2, 4, 4, 3, 1]);
            let mut rhs = vec![];
            for _ in 0..len {
                if rng.chance(3, 5) {
                    rhs.push(T(rng.below(t)));
                } else {
                    rhs.push(N(rng.below(n)));
                }
            }
            c.rule(a, rhs);
        }
    }
    c
}

/// Grammars that are certainly not LALR(1): ambiguous operators, dangling else,
/// LR(1)-not-LALR(1) — several independent conflicts side by side.
pub fn fam_conflict(rng: &mut Rng) -> Cfg {
    fam_conflict_n(rng, 1, 4)
}

pub fn fam_conflict_n(rng: &mut Rng, lo: usize, hi: usize) -> Cfg {
    let mut c = Cfg::new("conflict");
    let s = c.nt("Top");
    c.start = s;
    let k = rng.range(lo, hi);
    for i in 0..k {
        let tag = c.term(&format!("Tag{}", i));
        match rng.below(7) {
            5 => {
                // a nonterminal that derives itself: reduce/reduce (or accept/reduce at the top)
                let q = c.nt(&format!("Selfish{}", i));
                let z = c.term(&format!("W{}", i));
                c.rule(q, vec![N(q)]);
                c.rule(q, vec![T(z)]);
                c.rule(s, vec![T(tag), N(q)]);
            }
            6 => {
                // the start symbol derives itself: accept/reduce conflict
                c.rule(s, vec![N(s)]);
                let z = c.term(&format!("W{}", i));
                c.rule(s, vec![T(tag), T(z)]);
            }
            4 => {
                let sub = if rng.chance(1, 2) { fam_lr1ish(rng) } else { fam_lr1ish_deep(rng) };
                let st = embed(&mut c, &sub);
                c.rule(s, vec![T(tag), N(st)]);
            }
            0 => {
                let e = c.nt(&format!("Amb{}", i));
                let op = c.term(&format!("Op{}", i));
                let id = c.term(&format!("Id{}", i));
                c.rule(e, vec![N(e), T(op), N(e)]);
                c.rule(e, vec![T(id)]);
                if rng.chance(1, 2) {
                    let op2 = c.term(&format!("Opb{}", i));
                    c.rule(e, vec![N(e), T(op2), N(e)]);
                }
                c.rule(s, vec![T(tag), N(e)]);
            }
            1 => {
                let st = c.nt(&format!("IfStmt{}", i));
                let iff = c.term(&format!("If{}", i));
                let els = c.term(&format!("Else{}", i));
                let x = c.term(&format!("X{}", i));
                c.rule(st, vec![T(iff), N(st)]);
                c.rule(st, vec![T(iff), N(st), T(els), N(st)]);
                c.rule(st, vec![T(x)]);
                c.rule(s, vec![T(tag), N(st)]);
            }
            2 => {
                // LR(1) but not LALR(1)
                let q = c.nt(&format!("Q{}", i));
                let a = c.nt(&format!("Qa{}", i));
                let b = c.nt(&format!("Qb{}", i));
                let (ta, tb, tc, td, te) = (
                    c.term(&format!("A{}", i)),
                    c.term(&format!("B{}", i)),
                    c.term(&format!("C{}", i)),
                    c.term(&format!("D{}", i)),
                    c.term(&format!("E{}", i)),
                );
                c.rule(q, vec![T(ta), N(a), T(td)]);
                c.rule(q, vec![T(tb), N(b), T(td)]);
                c.rule(q, vec![T(ta), N(b), T(te)]);
                c.rule(q, vec![T(tb), N(a), T(te)]);
                c.rule(a, vec![T(tc)]);
                c.rule(b, vec![T(tc)]);
                c.rule(s, vec![T(tag), N(q)]);
            }
            _ => {
                // reduce/reduce: two nullable alternatives
                let q = c.nt(&format!("RR{}", i));
                let a = c.nt(&format!("Ra{}", i));
                let b = c.nt(&format!("Rb{}", i));
                let z = c.term(&format!("Z{}", i));
                c.rule(a, vec![]);
                c.rule(b, vec![]);
                c.rule(q, vec![N(a), T(z)]);
                c.rule(q, vec![N(b), T(z)]);
                c.rule(s, vec![T(tag), N(q)]);
            }
        }
    }
    c
}

/// Many nonterminals / terminals / states (so hash collections hold tens to
/// hundreds of entries): a wide union of tagged sub-grammars.
pub fn fam_wide(rng: &mut Rng) -> Cfg {
    let mut c = Cfg::new("wide");
    let s = c.nt("Top");
    c.start = s;
    let k = rng.range(4, 12);
    for i in 0..k {
        let tag = c.term(&format!("Kw{}", i));
        let body = c.nt(&format!("Body{}", i));
        let x = c.term(&format!("Tok{}a", i));
        let y = c.term(&format!("Tok{}b", i));
        c.rule(s, vec![T(tag), N(body)]);
        match rng.below(3) {
            0 => {
                c.rule(body, vec![T(x)]);
                c.rule(body, vec![T(x), T(y), N(body)]);
            }
            1 => {
                c.rule(body, vec![]);
                c.rule(body, vec![N(body), T(x), T(y)]);
            }
            _ => {
                let inner = c.nt(&format!("Inner{}", i));
                c.rule(body, vec![T(x), N(inner), T(y)]);
                c.rule(inner, vec![]);
                c.rule(inner, vec![N(body)]);
            }
        }
    }
    c
}


/// Indirect (mutual) left recursion: A -> B y | a ; B -> A z | b ; ... used after another symbol.
fn fam_indirect(rng: &mut Rng) -> Cfg {
    let mut c = Cfg::new("indirect");
    let s = c.nt("Unit");
    c.start = s;
    let k = 2 + rng.weighted(&[1, 2, 2]);
    let names = ["Expr", "Call", "Member", "Target"];
    let cyc: Vec<usize> = (0..k).map(|i| c.nt(names[i])).collect();
    let mut suffixes = vec![];
    let mut bases = 0;
    for i in 0..k {
        let next = cyc[(i + 1) % k];
        let suffix = c.term(&format!("Post{}", i));
        suffixes.push(suffix);
        // not every member needs a base case of its own (one is enough)
        let with_base = i == 0 || rng.chance(1, 2);
        if with_base {
            bases += 1;
            let own = c.term(&format!("Base{}", i));
            if rng.chance(1, 2) {
                c.rule(cyc[i], vec![N(next), T(suffix)]);
                c.rule(cyc[i], vec![T(own)]);
            } else {
                c.rule(cyc[i], vec![T(own)]);
                c.rule(cyc[i], vec![N(next), T(suffix)]);
            }
        } else {
            c.rule(cyc[i], vec![N(next), T(suffix)]);
        }
        if rng.chance(1, 4) {
            c.rule(cyc[i], vec![N(next)]);
        }
    }
    let _ = bases;
    let lead = c.nt("Lead");
    let lt = c.term("Kw");
    c.rule(lead, vec![T(lt)]);
    if rng.chance(1, 2) {
        c.rule(lead, vec![]);
    }
    // uses of cycle members from outside the cycle: at the end of a rule, or followed by a
    // terminal — a fresh one, or one of the cycle's own suffix terminals (the same follower
    // inside and outside the cycle)
    let uses = 1 + rng.weighted(&[1, 3, 2]);
    let first_member = rng.below(k);
    for u in 0..uses {
        // the cycle is usually entered from outside through two *different* members, one of them
        // possibly at the very start of a rule of the start symbol
        let which = if u == 0 {
            cyc[first_member]
        } else if rng.chance(2, 3) {
            cyc[(first_member + 1 + rng.below(k - 1)) % k]
        } else {
            cyc[rng.below(k)]
        };
        let mut rhs = match rng.below(5) {
            0 | 1 => vec![N(lead), N(which)],
            2 | 3 => vec![T(lt), N(which)],
            _ => vec![N(which)],
        };
        match rng.below(4) {
            0 => {}
            1 | 2 => rhs.push(T(suffixes[rng.below(k)])),
            _ => {
                let f = c.term(&format!("Follow{}", u));
                rhs.push(T(f));
            }
        }
        c.rule(s, rhs);
    }
    if rng.chance(1, 2) {
        let semi = c.term("Semi");
        let other = cyc[rng.below(k)];
        c.rule(s, vec![N(lead), N(other), T(semi), N(s)]);
    }
    c
}

/// Chains of nonterminals that are nullable only through other nonterminals, declared
/// top-down or bottom-up, in front of terminals and after other nonterminals.
fn fam_nullchain(rng: &mut Rng) -> Cfg {
    let mut c = Cfg::new("nullchain");
    let item = c.nt("Item");
    let name = c.nt("Name");
    let body = c.nt("Body");
    c.start = item;
    let depth = rng.range(2, 4);
    let top_down = rng.chance(1, 2);
    let mut chain: Vec<usize> = vec![];
    if top_down {
        for i in 0..depth {
            chain.push(c.nt(&format!("Quals{}", i)));
        }
    } else {
        for i in (0..depth).rev() {
            chain.push(c.nt(&format!("Quals{}", i)));
        }
        chain.reverse();
    }
    let (kw, id, lc, rc, semi) = (c.term("FnKw"), c.term("Ident"), c.term("LCurly"), c.term("RCurly"), c.term("Semi"));
    c.rule(item, vec![T(kw), N(name), N(body)]);
    c.rule(name, vec![T(id)]);
    c.rule(body, vec![T(semi)]);
    c.rule(body, vec![N(chain[0]), T(lc), T(rc)]);
    for i in 0..depth {
        if i + 1 < depth {
            c.rule(chain[i], vec![N(chain[i + 1])]);
            if rng.chance(1, 3) {
                let t = c.term(&format!("Q{}", i));
                c.rule(chain[i], vec![T(t)]);
            }
        } else {
            c.rule(chain[i], vec![]);
            if rng.chance(1, 2) {
                let t = c.term("Unsafe");
                c.rule(chain[i], vec![T(t)]);
            }
        }
    }
    if rng.chance(1, 2) {
        let items = c.nt("Items");
        c.rule(items, vec![]);
        c.rule(items, vec![N(items), N(item)]);
        c.start = items;
    }
    c
}

/// Nesting whose opener is a nonterminal: Body -> Open Body close | atom ; Open -> open
fn fam_prefixnest(rng: &mut Rng) -> Cfg {
    let mut c = Cfg::new("prefixnest");
    let (b, o) = if rng.chance(1, 2) {
        let b = c.nt("Body");
        (b, c.nt("Opener"))
    } else {
        let o = c.nt("Intro");
        (c.nt("Nest"), o)
    };
    c.start = b;
    let (op, cl, at) = (c.term("Open"), c.term("Close"), c.term("Atom"));
    c.rule(o, vec![T(op)]);
    if rng.chance(1, 3) {
        let op2 = c.term("Open2");
        c.rule(o, vec![T(op2)]);
    }
    match rng.below(3) {
        0 => {
            c.rule(b, vec![N(o), N(b), T(cl)]);
            c.rule(b, vec![T(at)]);
        }
        1 => {
            c.rule(b, vec![N(o), N(b), T(cl)]);
            c.rule(b, vec![N(o), T(cl)]);
        }
        _ => {
            c.rule(b, vec![]);
            c.rule(b, vec![N(o), N(b), T(cl), N(b)]);
        }
    }
    c
}

/// Statements sharing long prefixes (LR states whose cores are subsets of one another).
fn fam_sharedprefix(rng: &mut Rng) -> Cfg {
    let mut c = Cfg::new("sharedprefix");
    let s = c.nt("Stmt");
    let call = c.nt("Call");
    let index = c.nt("Index");
    c.start = s;
    let (le, id, lp, ls, semi, comma) =
        (c.term("Let"), c.term("Id"), c.term("LParen"), c.term("LSquare"), c.term("Semi"), c.term("Comma"));
    c.rule(s, vec![N(call)]);
    c.rule(s, vec![N(index)]);
    c.rule(s, vec![T(le), N(call), T(semi)]);
    if rng.chance(2, 3) {
        c.rule(s, vec![T(le), N(call), T(comma)]);
    }
    if rng.chance(1, 2) {
        c.rule(s, vec![T(le), N(index), T(semi)]);
    }
    c.rule(call, vec![T(id), T(lp)]);
    c.rule(index, vec![T(id), T(ls)]);
    if rng.chance(1, 2) {
        let rp = c.term("RParen");
        c.rule(call, vec![T(id), T(lp), N(s), T(rp)]);
    }
    c
}

/// Several nonterminals with identical right-hand sides, told apart only by context:
/// Top -> p_i X_j s_k for a random set of (prefix, nonterminal, suffix) combinations. Depending
/// on the combination the grammar is LALR(1), LR(1) but not LALR(1) (states with equal cores whose
/// merge creates a reduce/reduce conflict), or not LR(1) at all.
pub fn fam_lr1ish(rng: &mut Rng) -> Cfg {
    let mut c = Cfg::new("lr1ish");
    let top = c.nt("Top");
    c.start = top;
    let nx = rng.range(2, 3);
    let xs: Vec<usize> = (0..nx).map(|i| c.nt(["Left", "Right", "Middle"][i])).collect();
    let contexts = rng.range(2, 5);
    let pool = rng.range(nx, nx + 3);
    let ss: Vec<usize> = (0..pool).map(|i| c.term(&format!("Suf{}", i))).collect();
    let x = c.term("Core");
    for n in &xs {
        c.rule(*n, vec![T(x)]);
    }
    if rng.chance(1, 4) {
        let y = c.term("Core2");
        for n in &xs {
            c.rule(*n, vec![T(x), T(y)]);
        }
    }
    // every context (a leading token) assigns each X its own follower: an injective map from
    // the nonterminals to the pool of suffix tokens. Two contexts that swap followers are
    // LR(1)-compatible only unmerged; a third one with fresh followers is compatible with both.
    for i in 0..contexts {
        let p = c.term(&format!("Pre{}", i));
        let mut order: Vec<usize> = (0..pool).collect();
        rng.shuffle(&mut order);
        for (j, n) in xs.iter().enumerate() {
            if rng.chance(9, 10) {
                c.rule(top, vec![T(p), N(*n), T(ss[order[j]])]);
            }
        }
    }
    c
}

/// Like `fam_lr1ish`, with what makes the construction *history* matter: contexts of different
/// depth, recursive wrappers that feed lookaheads into a state late (W -> o W z | k Slot), and
/// slots whose alternatives end in X (inheriting the context's lookahead) or in X followed by a
/// token: Slot -> Left | Right y.
pub fn fam_lr1ish_deep(rng: &mut Rng) -> Cfg {
    let mut c = Cfg::new("lr1ish-deep");
    let top = c.nt("Top");
    c.start = top;
    let nx = rng.range(2, 3);
    let xs: Vec<usize> = (0..nx).map(|i| c.nt(["Left", "Right", "Middle"][i])).collect();
    let x = c.term("Core");
    for n in &xs {
        c.rule(*n, vec![T(x)]);
    }
    let pool = rng.range(2, 4);
    let ss: Vec<usize> = (0..pool).map(|i| c.term(&format!("Suf{}", i))).collect();
    let contexts = rng.range(2, 4);
    // "late lookahead" variant (one grammar in three): context 0 is a recursive wrapper whose
    // closing token `z` reaches the slot's inheriting alternative only on the second visit of
    // the wrapper's state, and context 1 uses the same `z` explicitly after the *other*
    // nonterminal, so that two core-equal states are compatible when first met and
    // incompatible once all lookaheads have arrived
    let late: Option<(usize, usize)> = if rng.chance(1, 3) { Some((rng.below(nx), rng.below(pool))) } else { None };
    for i in 0..contexts {
        // the slot of this context
        let slot = c.nt(&format!("Slot{}", i));
        let mut order: Vec<usize> = (0..pool).collect();
        rng.shuffle(&mut order);
        for (j, n) in xs.iter().enumerate() {
            match late {
                Some((inh, z)) if i == 0 => {
                    if j == inh {
                        c.rule(slot, vec![N(*n)]);
                    } else {
                        let s = (z + 1 + rng.below(pool - 1)) % pool;
                        c.rule(slot, vec![N(*n), T(ss[s])]);
                    }
                    continue;
                }
                Some((inh, z)) if i == 1 => {
                    if j == (inh + 1) % nx {
                        c.rule(slot, vec![N(*n), T(ss[z])]);
                    } else if j == inh && rng.chance(2, 3) {
                        c.rule(slot, vec![N(*n)]);
                    } else {
                        let s = (z + 1 + rng.below(pool - 1)) % pool;
                        c.rule(slot, vec![N(*n), T(ss[s])]);
                    }
                    continue;
                }
                _ => {}
            }
            if rng.chance(1, 3) {
                c.rule(slot, vec![N(*n)]); // inherits whatever may follow the slot
            } else if j < pool {
                c.rule(slot, vec![N(*n), T(ss[order[j]])]);
            }
        }
        // how the context reaches its slot
        let depth = rng.range(1, 3);
        let mut prefix: Vec<Sym> = vec![];
        for d in 0..depth {
            let p = if rng.chance(1, 3) && i > 0 { c.terms.iter().position(|t| t == "Pre0_0").unwrap_or(0) } else { c.term(&format!("Pre{}_{}", i, d)) };
            prefix.push(T(p));
        }
        let style = match late {
            Some(_) if i == 0 => 1,
            Some(_) if i == 1 => [0, 0, 1][rng.below(3)],
            _ => rng.below(3),
        };
        match style {
            0 => {
                // flat: Top -> prefix Slot [suffix]
                let mut rhs = prefix.clone();
                rhs.push(N(slot));
                if rng.chance(1, 2) {
                    rhs.push(T(ss[rng.below(pool)]));
                }
                c.rule(top, rhs);
            }
            1 => {
                // recursive wrapper: W -> o W z | k Slot ; Top -> W
                let w = c.nt(&format!("Wrap{}", i));
                let o = c.term(&format!("Open{}", i));
                let z = match late {
                    Some((_, z)) if i == 0 => ss[z],
                    _ => ss[rng.below(pool)],
                };
                c.rule(w, vec![T(o), N(w), T(z)]);
                let mut rhs = prefix.clone();
                rhs.push(N(slot));
                c.rule(w, rhs);
                c.rule(top, vec![N(w)]);
            }
            _ => {
                // two routes of different length to the same slot
                let mut rhs = prefix.clone();
                rhs.push(N(slot));
                rhs.push(T(ss[rng.below(pool)]));
                c.rule(top, rhs);
                let extra = c.term(&format!("Long{}", i));
                let mut rhs2 = vec![T(extra), T(extra)];
                rhs2.extend(prefix.clone());
                rhs2.push(N(slot));
                rhs2.push(T(ss[rng.below(pool)]));
                c.rule(top, rhs2);
            }
        }
    }
    c
}

/// Two to four small, deliberately odd patterns side by side under leading tags: the same
/// nonterminal twice in a row, very long right-hand sides, many alternatives, unit chains, the
/// same rule at two dot positions of one state, a nullable left-recursive start, optional
/// separators inside left-recursive lists, shared suffixes, alternatives that differ only in
/// their last token, nested optionals, one terminal in many roles.
pub fn fam_micro(rng: &mut Rng) -> Cfg {
    let mut c = Cfg::new("micro");
    let top = c.nt("Top");
    c.start = top;
    let k = if rng.chance(1, 4) { 1 } else { rng.range(2, 4) };
    for i in 0..k {
        let tag = c.term(&format!("Tag{}", i));
        let st = micro_pattern(&mut c, rng, i);
        if k == 1 {
            c.rule(top, vec![N(st)]);
            break;
        }
        if rng.chance(1, 5) {
            // no tag: the pattern sits directly under the start symbol
            c.rule(top, vec![N(st)]);
        } else {
            c.rule(top, vec![T(tag), N(st)]);
        }
    }
    c
}

fn micro_pattern(c: &mut Cfg, rng: &mut Rng, i: usize) -> usize {
    let t = |c: &mut Cfg, n: &str| c.term(&format!("{}{}", n, i));
    let a = c.nt(&format!("Pat{}", i));
    match rng.below(13) {
        0 => {
            let b = c.nt(&format!("Twin{}", i));
            let (x, y) = (t(c, "Tx"), t(c, "Ty"));
            c.rule(a, vec![N(b), N(b)]);
            if rng.chance(1, 2) {
                c.rule(a, vec![N(b), N(b), N(b)]);
            }
            c.rule(b, vec![T(x)]);
            c.rule(b, vec![T(y), N(b)]);
        }
        1 => {
            let b = c.nt(&format!("Inner{}", i));
            let ts: Vec<usize> = (0..6).map(|j| c.term(&format!("L{}_{}", i, j))).collect();
            c.rule(a, vec![T(ts[0]), T(ts[1]), N(b), T(ts[2]), T(ts[3]), N(b), T(ts[4]), T(ts[5])]);
            c.rule(b, vec![T(ts[rng.below(6)])]);
            c.rule(b, vec![]);
        }
        2 => {
            let n = rng.range(7, 10);
            for j in 0..n {
                let x = c.term(&format!("Alt{}_{}", i, j));
                if j % 3 == 0 {
                    c.rule(a, vec![T(x), N(a)]);
                } else if j % 3 == 1 {
                    c.rule(a, vec![T(x)]);
                } else {
                    let y = c.term(&format!("Alt{}_{}b", i, j));
                    c.rule(a, vec![T(x), T(y)]);
                }
            }
        }
        3 => {
            let depth = rng.range(3, 5);
            let mut prev = a;
            for d in 0..depth {
                let n = c.nt(&format!("Unit{}_{}", i, d));
                c.rule(prev, vec![N(n)]);
                if rng.chance(1, 3) {
                    let x = c.term(&format!("U{}_{}", i, d));
                    c.rule(prev, vec![T(x), N(n)]);
                }
                prev = n;
            }
            let x = t(c, "Leaf");
            c.rule(prev, vec![T(x)]);
            if rng.chance(1, 2) {
                let (l, r) = (t(c, "Lp"), t(c, "Rp"));
                c.rule(prev, vec![T(l), N(a), T(r)]);
            }
        }
        4 => {
            // the same rule at two dot positions of one state
            let b = c.nt(&format!("Rep{}", i));
            let (x, y, z) = (t(c, "Rx"), t(c, "Ry"), t(c, "Rz"));
            // each occurrence of the repeated nonterminal is followed by nothing (so that it
            // inherits the context's lookahead, end of input at the top) or by a token of its own
            let mut r1 = vec![N(b)];
            let mut r2 = vec![T(x), N(b)];
            if rng.chance(1, 2) {
                let f = t(c, "Fa");
                r1.push(T(f));
            }
            if rng.chance(1, 3) {
                let f = t(c, "Fb");
                r2.push(T(f));
            }
            c.rule(a, r1);
            c.rule(a, r2);
            match rng.below(3) {
                0 => c.rule(b, vec![T(x), T(y), T(z)]),
                1 => {
                    let inner = c.nt(&format!("RepIn{}", i));
                    c.rule(b, vec![T(x), N(inner)]);
                    c.rule(inner, vec![T(y)]);
                }
                _ => {
                    c.rule(b, vec![T(x), T(x), T(y)]);
                    c.rule(a, vec![T(x), T(x), N(b), T(z)]);
                }
            }
        }
        5 => {
            let it = c.nt(&format!("Elem{}", i));
            let (x, y) = (t(c, "Ex"), t(c, "Ey"));
            c.rule(a, vec![]);
            c.rule(a, vec![N(a), N(it)]);
            c.rule(it, vec![T(x)]);
            c.rule(it, vec![T(y), N(a), T(x)]);
        }
        6 => {
            let o = c.nt(&format!("Tail{}", i));
            let (x, y, z) = (t(c, "Qx"), t(c, "Qy"), t(c, "Qz"));
            c.rule(a, vec![T(x), N(a), N(o)]);
            c.rule(a, vec![T(z)]);
            c.rule(o, vec![]);
            c.rule(o, vec![T(y)]);
        }
        7 => {
            let f = c.nt(&format!("Post{}", i));
            let (pre, post, at) = (t(c, "Pre"), t(c, "Pst"), t(c, "At"));
            c.rule(a, vec![T(pre), N(a)]);
            c.rule(a, vec![N(f)]);
            c.rule(f, vec![N(f), T(post)]);
            c.rule(f, vec![T(at)]);
        }
        8 => {
            let sep = c.nt(&format!("Sep{}", i));
            let it = c.nt(&format!("It{}", i));
            let (comma, x, l, r) = (t(c, "Cm"), t(c, "Ix"), t(c, "Il"), t(c, "Ir"));
            c.rule(a, vec![N(it)]);
            c.rule(a, vec![N(a), N(sep), N(it)]);
            c.rule(sep, vec![]);
            c.rule(sep, vec![T(comma)]);
            c.rule(it, vec![T(x)]);
            c.rule(it, vec![T(l), N(a), T(r)]);
        }
        9 => {
            let (b1, b2, suf) = (c.nt(&format!("ViaA{}", i)), c.nt(&format!("ViaB{}", i)), c.nt(&format!("Suffix{}", i)));
            let (x, y, z) = (t(c, "Sx"), t(c, "Sy"), t(c, "Sz"));
            c.rule(a, vec![N(b1)]);
            c.rule(a, vec![N(b2)]);
            c.rule(b1, vec![T(x), N(suf)]);
            c.rule(b2, vec![T(y), N(suf)]);
            c.rule(suf, vec![T(z)]);
            c.rule(suf, vec![T(z), N(suf)]);
            if rng.chance(1, 2) {
                c.rule(b2, vec![T(y), N(suf), T(x)]);
            }
        }
        10 => {
            let n = rng.range(3, 5);
            let ts: Vec<usize> = (0..n).map(|j| c.term(&format!("P{}_{}", i, j))).collect();
            let (e1, e2) = (t(c, "EndA"), t(c, "EndB"));
            let mut r1: Vec<Sym> = ts.iter().map(|x| T(*x)).collect();
            let mut r2 = r1.clone();
            r1.push(T(e1));
            r2.push(T(e2));
            c.rule(a, r1);
            c.rule(a, r2);
            if rng.chance(1, 2) {
                let r3: Vec<Sym> = ts.iter().take(n - 1).map(|x| T(*x)).collect();
                c.rule(a, r3);
            }
        }
        11 => {
            let (o1, o2, b) = (c.nt(&format!("OptA{}", i)), c.nt(&format!("OptB{}", i)), c.nt(&format!("Bit{}", i)));
            let (x, y, z) = (t(c, "Nx"), t(c, "Ny"), t(c, "Nz"));
            c.rule(a, vec![N(o1), T(z)]);
            c.rule(o1, vec![]);
            c.rule(o1, vec![N(b), N(o2)]);
            c.rule(o2, vec![]);
            c.rule(o2, vec![T(y)]);
            c.rule(b, vec![T(x)]);
        }
        _ => {
            // one terminal in many roles: atom, separator and terminator
            let x = t(c, "Role");
            let (l, r) = (t(c, "Ol"), t(c, "Or"));
            let it = c.nt(&format!("Thing{}", i));
            c.rule(a, vec![T(l), N(it), T(x), N(it), T(r), T(x)]);
            c.rule(it, vec![T(x)]);
            c.rule(it, vec![T(l), T(x), T(r)]);
        }
    }
    a
}

/// Random structural mutation of a grammar (kiki itself filters out the conflicting results).
pub fn mutate(c: &mut Cfg, rng: &mut Rng) -> &'static str {
    if c.rules.is_empty() {
        return "none";
    }
    let ri = rng.below(c.rules.len());
    match rng.below(8) {
        0 => {
            // wrap a terminal occurrence into a fresh nonterminal
            let (_, rhs) = c.rules[ri].clone();
            let pos: Vec<usize> = rhs.iter().enumerate().filter(|(_, s)| matches!(s, T(_))).map(|(i, _)| i).collect();
            if pos.is_empty() {
                return "none";
            }
            let p = pos[rng.below(pos.len())];
            let w = c.nt("Wrap");
            c.rule(w, vec![rhs[p]]);
            c.rules[ri].1[p] = N(w);
            "wrap-terminal"
        }
        1 => {
            // make a symbol optional through a fresh nullable nonterminal
            let (_, rhs) = c.rules[ri].clone();
            if rhs.is_empty() {
                return "none";
            }
            let p = rng.below(rhs.len());
            let o = c.nt("Maybe");
            c.rule(o, vec![]);
            c.rule(o, vec![rhs[p]]);
            c.rules[ri].1[p] = N(o);
            "make-optional"
        }
        2 => {
            // add a random rule
            let lhs = rng.below(c.nts.len());
            let len = rng.range(0, 3);
            let mut rhs = vec![];
            for _ in 0..len {
                if !c.terms.is_empty() && rng.chance(3, 5) {
                    rhs.push(T(rng.below(c.terms.len())));
                } else {
                    rhs.push(N(rng.below(c.nts.len())));
                }
            }
            c.rule(lhs, rhs);
            "add-rule"
        }
        3 => {
            // duplicate a rule with one terminal replaced by a new one
            let (lhs, mut rhs) = c.rules[ri].clone();
            if rhs.is_empty() {
                return "none";
            }
            let p = rng.below(rhs.len());
            let t = c.term("Alt");
            rhs[p] = T(t);
            c.rule(lhs, rhs);
            "variant-rule"
        }
        4 => {
            // nullable chain in front of a symbol
            let (_, rhs) = c.rules[ri].clone();
            let p = rng.below(rhs.len() + 1);
            let top_down = rng.chance(1, 2);
            let (n1, n2) = if top_down {
                let a = c.nt("Pre");
                (a, c.nt("PreInner"))
            } else {
                let b = c.nt("PreInner");
                (c.nt("Pre"), b)
            };
            c.rule(n1, vec![N(n2)]);
            c.rule(n2, vec![]);
            c.rules[ri].1.insert(p, N(n1));
            "nullable-chain"
        }
        5 => {
            // replace a symbol by another existing symbol
            let (_, rhs) = c.rules[ri].clone();
            if rhs.is_empty() {
                return "none";
            }
            let p = rng.below(rhs.len());
            c.rules[ri].1[p] = if !c.terms.is_empty() && rng.chance(1, 2) {
                T(rng.below(c.terms.len()))
            } else {
                N(rng.below(c.nts.len()))
            };
            "replace-symbol"
        }
        6 => {
            // turn direct recursion into indirect recursion through a fresh nonterminal
            let (lhs, rhs) = c.rules[ri].clone();
            if let Some(p) = rhs.iter().position(|s| *s == N(lhs)) {
                let via = c.nt("Via");
                c.rule(via, vec![N(lhs)]);
                c.rules[ri].1[p] = N(via);
                "indirect-recursion"
            } else {
                "none"
            }
        }
        _ => {
            // delete a symbol
            if c.rules[ri].1.is_empty() {
                return "none";
            }
            let p = rng.below(c.rules[ri].1.len());
            c.rules[ri].1.remove(p);
            "delete-symbol"
        }
    }
}

fn dedup_rules(c: &mut Cfg) {
    let mut seen: Vec<(usize, Vec<Sym>)> = vec![];
    c.rules.retain(|r| {
        if seen.contains(r) {
            false
        } else {
            seen.push(r.clone());
            true
        }
    });
}

/// Shuffles the declaration order of nonterminals and of the rules (rule indices change).
fn shuffle_declarations(c: &mut Cfg, rng: &mut Rng) {
    let n = c.nts.len();
    let mut perm: Vec<usize> = (0..n).collect();
    if rng.chance(1, 2) {
        rng.shuffle(&mut perm);
    }
    // perm[new] = old
    let mut inv = vec![0usize; n];
    for (new, old) in perm.iter().enumerate() {
        inv[*old] = new;
    }
    c.nts = perm.iter().map(|o| c.nts[*o].clone()).collect();
    c.start = inv[c.start];
    for r in c.rules.iter_mut() {
        r.0 = inv[r.0];
        for s in r.1.iter_mut() {
            if let N(i) = s {
                *i = inv[*i];
            }
        }
    }
    if rng.chance(1, 2) {
        rng.shuffle(&mut c.rules);
    }
    // the declaration order of the terminals (their column in the tables, and which one is
    // "the first terminal") is a dimension of its own
    if rng.chance(1, 2) && c.terms.len() > 1 {
        let t = c.terms.len();
        let mut perm: Vec<usize> = (0..t).collect();
        rng.shuffle(&mut perm);
        let mut inv = vec![0usize; t];
        for (new, old) in perm.iter().enumerate() {
            inv[*old] = new;
        }
        c.terms = perm.iter().map(|o| c.terms[*o].clone()).collect();
        for r in c.rules.iter_mut() {
            for s in r.1.iter_mut() {
                if let T(i) = s {
                    *i = inv[*i];
                }
            }
        }
    }
}

fn embed(c: &mut Cfg, other: &Cfg) -> usize {
    // copies `other` into `c` with fresh names; returns the index of other's start
    let nmap: Vec<usize> = other.nts.iter().map(|n| c.nt(n)).collect();
    let tmap: Vec<usize> = other
        .terms
        .iter()
        .map(|t| {
            // share terminals of the same name (makes the union more interesting)
            if let Some(i) = c.terms.iter().position(|x| x == t) {
                i
            } else {
                c.term(t)
            }
        })
        .collect();
    for (l, r) in &other.rules {
        let rhs = r
            .iter()
            .map(|s| match s {
                T(i) => T(tmap[*i]),
                N(i) => N(nmap[*i]),
            })
            .collect();
        c.rule(nmap[*l], rhs);
    }
    nmap[other.start]
}

/// Union of two family grammars under distinct leading tags.
fn fam_compose(rng: &mut Rng) -> Cfg {
    let big = rng.chance(1, 6);
    let mut c = Cfg::new("compose");
    let s = c.nt("Root");
    c.start = s;
    let k = if big { rng.range(4, 7) } else { rng.range(2, 3) };
    for i in 0..k {
        let which = rng.below(15);
        let sub = base_family(rng, which);
        let tag = c.term(&format!("Mode{}", i));
        let st = embed(&mut c, &sub);
        c.rule(s, vec![T(tag), N(st)]);
    }
    c.family = if big { "compose-big".into() } else { "compose".into() };
    c
}

fn base_family(rng: &mut Rng, which: usize) -> Cfg {
    match which {
        0 => fam_nest(rng),
        1 => fam_list(rng),
        2 => fam_optmid(rng),
        3 => fam_expr(rng),
        4 => fam_lalr_not_slr(rng),
        5 => fam_eps(rng),
        6 => fam_json(rng),
        7 => fam_block(rng),
        8 => fam_indirect(rng),
        9 => fam_nullchain(rng),
        10 => fam_prefixnest(rng),
        11 => fam_sharedprefix(rng),
        12 => fam_lr1ish(rng),
        13 => fam_lr1ish_deep(rng),
        14 => fam_micro(rng),
        _ => fam_random(rng),
    }
}

pub const N_FAMILIES: usize = 11;

/// Families meant to be accepted by kiki (random ones are filtered by kiki).
pub fn accepted_family(rng: &mut Rng) -> Cfg {
    if std::env::var("VERIF_ONLY_RANDOM_FAMILY").is_ok() {
        // experiment switch (not used by the registered checks): uniform random small CFGs only
        let mut c = fam_random(rng);
        dedup_rules(&mut c);
        return c;
    }
    let mut w = rng.weighted(&[3, 4, 3, 4, 2, 2, 2, 2, 5, 3, 3, 3, 3, 5, 6, 8, 3, 1]);
    if let Ok(v) = std::env::var("VERIF_ONLY_FAMILY_INDEX") {
        // experiment switch (not used by the registered checks)
        w = v.parse().unwrap_or(w);
    }
    let mut c = match w {
        0..=15 => base_family(rng, w),
        16 => fam_compose(rng),
        _ => fam_wide(rng),
    };
    // structural mutations: small deviations from the textbook shapes are where
    // automaton-construction corner cases live
    if rng.chance(2, 5) {
        let k = rng.range(1, 3);
        let mut tags = vec![];
        for _ in 0..k {
            tags.push(mutate(&mut c, rng));
        }
        if tags.iter().any(|t| *t != "none") {
            c.family = format!("{}+mut", c.family);
        }
    }
    dedup_rules(&mut c);
    c
}

// --------------------------------------------------------------- decoration

const INTERNAL_NT_NAMES: &[&str] = &[
    "State", "Node", "Action", "RuleKind", "Eof", "Quasiterminal", "QuasiterminalKind",
    "NonterminalKind", "S", "R", "ACTION_TABLE", "GOTO_TABLE", "Terminal", "Shift", "Reduce",
    "Accept", "S0", "R0", "Self_", "T", "Error", "_1", "_2_3",
];
const INTERNAL_T_NAMES: &[&str] = &[
    "Eof", "Terminal", "State", "Node", "Action", "S0", "Err_", "Shift", "Reduce", "Accept", "AB",
    "A_b", "Ab", "A_B", "XMLTag", "Xml_tag", "X_m_l_tag", "Quasiterminal", "Eof2", "Node2", "_4",
];
const FIELD_NAMES: &[&str] = &[
    "left", "right", "inner", "head", "tail", "value", "states", "nodes", "rule_kind", "src", "t0",
    "node", "new_state", "quasiterminals", "top_state", "self_", "x", "y_1", "_z", "_5", "__",
];
const VARIANT_NAMES: &[&str] = &["Nil", "Cons", "One", "Many", "Wrap", "Leaf", "Alt", "Case", "Empty", "Some", "None", "Ok"];
const ATTRS: &[&str] = &[
    "#[allow(dead_code)]",
    "#[doc = \"workload\"]",
    "#[allow(clippy::all)]",
    "#[cfg(all())]",
    "#[allow(unused, non_camel_case_types)]",
];

#[derive(Clone, Copy, Debug)]
pub struct DecoOpts {
    /// probability (percent) that a given name is replaced by an internal name
    pub collide_pct: usize,
    /// add unreachable nonterminals
    pub unreachable: bool,
    pub payload: &'static str,
    /// shuffle declaration order and randomise the sort order of symbol names
    pub shuffle: bool,
}

impl Default for DecoOpts {
    fn default() -> Self {
        DecoOpts { collide_pct: 8, unreachable: true, payload: "crate::Tok", shuffle: true }
    }
}

pub fn decorate(cfg: &Cfg, rng: &mut Rng, opts: DecoOpts) -> Grammar {
    let mut c = cfg.clone();
    if opts.shuffle && rng.chance(1, 2) {
        shuffle_declarations(&mut c, rng);
    }
    if opts.unreachable && rng.chance(1, 4) && !c.terms.is_empty() {
        let u = c.nt("Orphan");
        let t0 = rng.below(c.terms.len());
        c.rule(u, vec![T(t0)]);
        if rng.chance(1, 2) {
            let u2 = c.nt("Orphan");
            c.rule(u2, vec![N(u), N(u2)]);
            c.rule(u2, vec![]);
        }
    }
    // names
    let mut used: Vec<String> = vec![];
    let fresh = |want: &str, used: &mut Vec<String>| -> String {
        let mut n = want.to_string();
        let mut k = 2;
        while used.contains(&n) {
            n = format!("{want}{k}");
            k += 1;
        }
        used.push(n.clone());
        n
    };
    let token_enum = if rng.chance(opts.collide_pct, 100) {
        fresh(*rng.pick(&["Node", "State", "Action", "Tokens", "Quasiterminal"]), &mut used)
    } else {
        fresh("Token", &mut used)
    };
    // symbol names decide the order in which kiki visits symbols, items and states: randomise
    // it (a random leading letter) in about half of the grammars
    let rename = opts.shuffle && rng.chance(1, 2);
    let letter = |rng: &mut Rng| -> char { (b'A' + rng.below(26) as u8) as char };
    let mut nt_names = vec![];
    for n in &c.nts {
        let want = if rng.chance(opts.collide_pct, 100) {
            (*rng.pick(INTERNAL_NT_NAMES)).to_string()
        } else if rename {
            format!("{}{}", letter(rng), n.to_ascii_lowercase())
        } else {
            n.clone()
        };
        nt_names.push(fresh(&want, &mut used));
    }
    let mut t_names = vec![];
    for t in &c.terms {
        let want = if rng.chance(opts.collide_pct, 100) {
            (*rng.pick(INTERNAL_T_NAMES)).to_string()
        } else if rename {
            format!("{}{}", letter(rng), t.to_ascii_lowercase())
        } else {
            t.clone()
        };
        t_names.push(fresh(&want, &mut used));
    }

    let mut nts: Vec<Nt> = vec![];
    for (i, name) in nt_names.iter().enumerate() {
        let rules: Vec<&Vec<Sym>> = c.rules.iter().filter(|(l, _)| *l == i).map(|(_, r)| r).collect();
        let kind = if rules.len() == 1 && rng.chance(3, 5) { NtKind::Struct } else { NtKind::Enum };
        let mut variants = vec![];
        let mut vnames: Vec<String> = vec![];
        for (vi, rhs) in rules.iter().enumerate() {
            let vname = if rng.chance(1, 2) {
                fresh(*rng.pick(VARIANT_NAMES), &mut vnames)
            } else {
                fresh(&format!("V{}", vi), &mut vnames)
            };
            let shape = if rhs.is_empty() {
                Shape::Empty
            } else if rng.chance(1, 2) {
                Shape::Named
            } else {
                Shape::Tuple
            };
            // `_` pattern: 0 = random, 1 = all used, 2 = all skipped
            let mode = rng.weighted(&[6, 2, 2]);
            let mut fnames: Vec<String> = vec![];
            let fields = rhs
                .iter()
                .enumerate()
                .map(|(fi, s)| {
                    let used_field = match mode {
                        1 => true,
                        2 => false,
                        _ => rng.chance(1, 2),
                    };
                    let name = if used_field {
                        let want = if rng.chance(1, 3) { (*rng.pick(FIELD_NAMES)).to_string() } else { format!("f{}", fi) };
                        Some(fresh(&want, &mut fnames))
                    } else {
                        None
                    };
                    Field { sym: *s, name }
                })
                .collect();
            variants.push(Variant::new(&vname, shape, fields));
        }
        let attrs = if rng.chance(1, 6) {
            let k = rng.range(1, 2);
            (0..k).map(|_| (*rng.pick(ATTRS)).to_string()).collect()
        } else {
            vec![]
        };
        nts.push(Nt { name: name.clone(), kind, attrs, variants });
    }
    let terms = t_names.iter().map(|n| Term { name: n.clone(), ty: opts.payload.to_string() }).collect();
    let token_attrs = if rng.chance(1, 6) { vec![(*rng.pick(ATTRS)).to_string()] } else { vec![] };
    Grammar { family: c.family.clone(), start: c.start, nts, terms, token_enum, token_attrs }
}

/// A *revision* of a grammar: the same names, one rule changed (a variant dropped, a field
/// dropped, or one terminal reference replaced by another).
pub fn revision(g: &Grammar, rng: &mut Rng) -> Grammar {
    let mut h = g.clone();
    for _ in 0..8 {
        let i = rng.below(h.nts.len());
        match rng.below(3) {
            0 if h.nts[i].variants.len() > 1 => {
                let v = rng.below(h.nts[i].variants.len());
                h.nts[i].variants.remove(v);
                return h;
            }
            1 if !h.nts[i].variants.is_empty() => {
                let v = rng.below(h.nts[i].variants.len());
                if !h.nts[i].variants[v].fields.is_empty() {
                    let f = rng.below(h.nts[i].variants[v].fields.len());
                    h.nts[i].variants[v].fields.remove(f);
                    h.nts[i].variants[v].fix_shape();
                    return h;
                }
            }
            2 if h.terms.len() > 1 && !h.nts[i].variants.is_empty() => {
                let v = rng.below(h.nts[i].variants.len());
                let fs = &mut h.nts[i].variants[v].fields;
                if let Some(f) = fs.iter_mut().find(|f| matches!(f.sym, Sym::T(_))) {
                    if let Sym::T(t) = f.sym {
                        f.sym = Sym::T((t + 1 + rng.below(h.terms.len() - 1)) % h.terms.len());
                        return h;
                    }
                }
            }
            _ => {}
        }
    }
    h
}

/// One workload grammar for Engine B.
/// Adds a nonterminal that derives no token sequence (no base case) and references it from
/// an existing nonterminal: C03's side clause (canonical LR(1) stopping index) applies.
pub fn add_unproductive(c: &mut Cfg, rng: &mut Rng) {
    if c.terms.is_empty() || c.nts.is_empty() {
        return;
    }
    let n_before = c.nts.len();
    let u = c.nt("Abyss");
    let t1 = rng.below(c.terms.len());
    match rng.below(8) {
        // right recursion without a base case: FIRST is not empty
        0 => c.rule(u, vec![T(t1), N(u)]),
        1 => {
            let t2 = c.term("Pit");
            c.rule(u, vec![T(t2), N(u), T(t1)]);
        }
        2 => {
            let u2 = c.nt("Chasm");
            let t2 = c.term("Pit");
            c.rule(u, vec![T(t2), N(u2)]);
            c.rule(u2, vec![T(t1), N(u)]);
        }
        // left recursion without a base case: FIRST is EMPTY and the nonterminal is not nullable
        3 => c.rule(u, vec![N(u), T(t1)]),
        4 => {
            let t2 = c.term("Pit");
            c.rule(u, vec![N(u), T(t1)]);
            c.rule(u, vec![N(u), T(t2), N(u)]);
        }
        5 => {
            // mutual left recursion without a base case
            let u2 = c.nt("Chasm");
            c.rule(u, vec![N(u2), T(t1)]);
            c.rule(u2, vec![N(u)]);
        }
        6 => {
            // needs itself twice
            c.rule(u, vec![T(t1), N(u), N(u)]);
        }
        _ => {
            // no rule at all: a variant-less enum. (On the pinned tree `generate` panics when such
            // a nonterminal is referenced — C07, DESIGN section 9 — so stage 1 skips the grammar;
            // a tree that accepts it gets explored.)
        }
    }
    // reference it from a live rule: at the end, in the middle, or right at the start of a
    // new alternative, with or without a leading token of its own
    let host = rng.below(n_before);
    let t3 = rng.below(c.terms.len());
    match rng.below(5) {
        0 => {
            let intro = c.term("Descend");
            c.rule(host, vec![T(intro), N(u)]);
        }
        1 => {
            let intro = c.term("Descend");
            c.rule(host, vec![T(intro), N(u), T(t3)]);
        }
        2 => {
            // after a nonterminal: A -> B U ..  (the lookaheads of B's items come from FIRST(U ..))
            let b = rng.below(n_before);
            let intro = c.term("Descend");
            c.rule(host, vec![T(intro), N(b), N(u), T(t3)]);
        }
        3 => {
            let b = rng.below(n_before);
            c.rule(host, vec![N(b), N(u)]);
        }
        _ => {
            // splice it into an existing rule
            let cand: Vec<usize> = (0..c.rules.len()).filter(|i| c.rules[*i].0 < n_before && !c.rules[*i].1.is_empty()).collect();
            if cand.is_empty() {
                let intro = c.term("Descend");
                c.rule(host, vec![T(intro), N(u)]);
            } else {
                let ri = cand[rng.below(cand.len())];
                let mut rhs = c.rules[ri].1.clone();
                let lhs = c.rules[ri].0;
                let p = rng.below(rhs.len() + 1);
                rhs.insert(p, N(u));
                // keep the original rule too (otherwise the language tends to become empty)
                c.rule(lhs, rhs);
            }
        }
    }
}

/// An independent random stream for passes added after the first sweeps: it is seeded from a
/// *clone* of the main stream, which therefore does not advance — every grammar, text and script
/// that the new pass leaves alone stays exactly what it was before the pass existed.
pub fn side_stream(rng: &Rng, tag: u64) -> Rng {
    let mut c = rng.clone();
    Rng::from_u64(c.next_u64() ^ tag)
}

/// Many symbols: 50-110 terminals that no rule uses, declared in front of, behind or around the
/// used ones (so that the used ones get column numbers beyond 64), and/or 60-90 unreachable
/// nonterminals likewise (word-size and index-width boundaries in sets and tables).
pub fn pad_symbols(c: &mut Cfg, rng: &mut Rng) {
    let mode = rng.weighted(&[3, 1, 1]);
    if mode != 1 {
        let n = rng.range(50, 110);
        let front = match rng.below(3) {
            0 => n,
            1 => 0,
            _ => rng.below(n + 1),
        };
        let old = std::mem::take(&mut c.terms);
        let mut terms: Vec<String> = (0..front).map(|i| format!("Pad{}", i)).collect();
        terms.extend(old);
        terms.extend((front..n).map(|i| format!("Pad{}", i)));
        c.terms = terms;
        for r in c.rules.iter_mut() {
            for s in r.1.iter_mut() {
                if let T(i) = s {
                    *i += front;
                }
            }
        }
    }
    if mode != 0 {
        let n = rng.range(60, 90);
        let front = if rng.chance(1, 2) { n } else { rng.below(n + 1) };
        let old = std::mem::take(&mut c.nts);
        let mut nts: Vec<String> = (0..front).map(|i| format!("PadNt{}", i)).collect();
        nts.extend(old);
        nts.extend((front..n).map(|i| format!("PadNt{}", i)));
        let total = nts.len();
        c.nts = nts;
        c.start += front;
        for r in c.rules.iter_mut() {
            r.0 += front;
            for s in r.1.iter_mut() {
                if let N(i) = s {
                    *i += front;
                }
            }
        }
        let pt = if c.terms.is_empty() { c.term("PadTok") } else { rng.below(c.terms.len()) };
        let pad_ix: Vec<usize> = (0..front).chain(total - (n - front)..total).collect();
        for (k, i) in pad_ix.iter().enumerate() {
            if k % 7 == 3 {
                c.rules.push((*i, vec![]));
            } else {
                c.rules.push((*i, vec![T(pt)]));
            }
        }
    }
    c.family = format!("{}+pad", c.family);
}

/// Long right-hand sides and many states: a run of fresh terminals (all distinct, or a cycle of
/// 1-3 of them) is spliced into one existing rule at a random position or added as a new
/// alternative (10-24 fields: field-count thresholds in pop code and rule tables), or — rarely —
/// long runs are added as alternatives until the automaton has well over 100 or 256 states
/// (index-width thresholds in tables and state numbering). A fresh terminal occurs nowhere else,
/// so the state in front of it shifts it without a possible conflict and every state inside the
/// run has a single item: an accepted grammar stays accepted.
pub fn stretch_rules(c: &mut Cfg, rng: &mut Rng) {
    if c.rules.is_empty() {
        return;
    }
    let big = rng.chance(1, 5);
    let runs = if big { rng.range(3, 9) } else { 1 };
    for k in 0..runs {
        let len = if big { rng.range(24, 60) } else { rng.range(9, 24) };
        let cycle = match rng.below(3) {
            0 => len,
            _ => rng.range(1, 3),
        };
        let fresh: Vec<usize> = (0..cycle).map(|i| c.term(&format!("Run{}x{}", k, i))).collect();
        let run: Vec<Sym> = (0..len).map(|i| T(fresh[i % cycle])).collect();
        let ri = rng.below(c.rules.len());
        if !big && rng.chance(2, 3) {
            let at = rng.below(c.rules[ri].1.len() + 1);
            let tail = c.rules[ri].1.split_off(at);
            c.rules[ri].1.extend(run);
            c.rules[ri].1.extend(tail);
        } else {
            // a new alternative of an existing nonterminal, optionally ending in what the
            // chosen rule ends in (so the run is followed by ordinary reductions)
            let lhs = c.rules[ri].0;
            let mut rhs = run;
            if rng.chance(1, 2) {
                if let Some(last) = c.rules[ri].1.last().copied() {
                    rhs.push(last);
                }
            }
            c.rules.push((lhs, rhs));
        }
    }
    c.family = format!("{}+{}", c.family, if big { "big" } else { "long" });
}

/// Names that are easy to confuse: digit runs that differ only in leading zeros (`Reg1`,
/// `Reg01`, `Reg001`), the same letters in different case, names that are prefixes of one
/// another. Anything that orders, hashes or abbreviates names must still tell them apart.
pub fn confusable_names(g: &mut Grammar, rng: &mut Rng) {
    let mode = rng.weighted(&[2, 1, 1]);
    let base = *rng.pick(&["Reg", "T", "Tok", "Kw", "X"]);
    let on_nts = rng.chance(1, 4);
    let n = if on_nts { g.nts.len() } else { g.terms.len() };
    if n < 2 {
        return;
    }
    let mut idx: Vec<usize> = (0..n).collect();
    rng.shuffle(&mut idx);
    let k = if rng.chance(1, 2) { n } else { rng.range(2, 5).min(n) };
    let mut taken: Vec<String> = g.nts.iter().map(|x| x.name.clone()).chain(g.terms.iter().map(|x| x.name.clone())).collect();
    taken.push(g.token_enum.clone());
    for (j, i) in idx[..k].iter().enumerate() {
        let name = match mode {
            0 => format!("{}{}{}", base, "0".repeat(j % 3), j / 3 + 1),
            1 => {
                let w = ["Tok", "TOk", "ToK", "TOK"][j % 4];
                if j < 4 {
                    w.to_string()
                } else {
                    format!("{}{}", w, j / 4)
                }
            }
            _ => format!("{}{}", base, "a".repeat(j)),
        };
        if taken.contains(&name) || name == "S" || name == "Eof" {
            continue;
        }
        taken.push(name.clone());
        if on_nts {
            g.nts[*i].name = name;
        } else {
            g.terms[*i].name = name;
        }
    }
    g.family = format!("{}+names", g.family);
}

pub fn workload_grammar(rng: &mut Rng) -> Grammar {
    workload_grammar_mix(rng, 0)
}

/// `random_pct` per cent of the grammars are uniform random small CFGs (on top of the share the
/// family mix gives them anyway): the tables-only extension uses a third, because the family mix
/// and the uniform draw find different seeded defects (DESIGN section 11).
pub fn workload_grammar_mix(rng: &mut Rng, random_pct: usize) -> Grammar {
    let mut side = side_stream(rng, 0xb16_5e75);
    let mut side2 = side_stream(rng, 0x57e7_c4ed);
    let mut cfg = if rng.chance(random_pct, 100) {
        let mut c = fam_random(rng);
        dedup_rules(&mut c);
        c
    } else {
        accepted_family(rng)
    };
    if rng.chance(1, 6) {
        add_unproductive(&mut cfg, rng);
    }
    if side.chance(1, 14) && cfg.rules.len() <= 40 {
        pad_symbols(&mut cfg, &mut side);
    }
    if side2.chance(1, 12) && cfg.rules.len() <= 60 {
        stretch_rules(&mut cfg, &mut side2);
    }
    let mut g = decorate(&cfg, rng, DecoOpts::default());
    if side.chance(1, 6) {
        confusable_names(&mut g, &mut side);
    }
    // A user identifier `Eof` makes the emitted module fail to compile on the pinned tree
    // (the template hard-codes `::Eof` in one place; that is C05's subject, see DESIGN section 9),
    // so Engine B does not spend workload on it. Engine A keeps such names.
    for n in g.nts.iter_mut() {
        if n.name == "Eof" {
            n.name = "Eofx".into();
        }
        // likewise a start symbol called `S` is shadowed by the type parameter of the emitted
        // `parse<S>` and the module does not compile (C05 again)
        if n.name == "S" {
            n.name = "Sx".into();
        }
    }
    for t in g.terms.iter_mut() {
        if t.name == "Eof" {
            t.name = "Eofy".into();
        }
    }
    g
}

// ------------------------------------------------------ hand-encoded examples

/// Hand-encoded models of the repository's example grammars (terminal payloads
/// replaced by `crate::Tok`). `which` in 0..5.
pub fn repo_example(which: usize) -> Grammar {
    let f = |sym: Sym, name: Option<&str>| Field { sym, name: name.map(|s| s.to_string()) };
    let tok = |n: &str| Term { name: n.to_string(), ty: "crate::Tok".to_string() };
    match which {
        0 => Grammar {
            // balanced_parens.kiki
            family: "repo:balanced_parens".into(),
            start: 0,
            nts: vec![Nt {
                name: "Expr".into(),
                kind: NtKind::Enum,
                attrs: vec![],
                variants: vec![
                    Variant::new("Empty", Shape::Empty, vec![]),
                    Variant::new(
                        "Wrap",
                        Shape::Tuple,
                        vec![f(T(0), None), f(N(0), Some("x")), f(T(1), None)],
                    ),
                ],
            }],
            terms: vec![tok("LParen"), tok("RParen")],
            token_enum: "Token".into(),
            token_attrs: vec![],
        },
        1 => Grammar {
            // balanced_parens_esoteric.kiki
            family: "repo:balanced_parens_esoteric".into(),
            start: 0,
            nts: vec![Nt {
                name: "Expr".into(),
                kind: NtKind::Enum,
                attrs: vec![],
                variants: vec![
                    Variant::new("Empty", Shape::Empty, vec![]),
                    Variant::new(
                        "Wrap",
                        Shape::Named,
                        vec![f(T(0), None), f(N(0), Some("inner")), f(T(1), Some("right"))],
                    ),
                ],
            }],
            terms: vec![tok("LParen"), tok("RParen")],
            token_enum: "Token".into(),
            token_attrs: vec![],
        },
        2 => Grammar {
            // balanced_parens_with_outer_attributes.kiki (attributes that need no derives)
            family: "repo:balanced_parens_with_outer_attributes".into(),
            start: 0,
            nts: vec![Nt {
                name: "Expr".into(),
                kind: NtKind::Enum,
                attrs: vec!["#[allow(dead_code)]".into()],
                variants: vec![
                    Variant::new("Empty", Shape::Empty, vec![]),
                    Variant::new(
                        "Wrap",
                        Shape::Tuple,
                        vec![f(T(0), None), f(N(0), Some("x")), f(T(1), None)],
                    ),
                ],
            }],
            terms: vec![tok("LParen"), tok("RParen")],
            token_enum: "Token".into(),
            token_attrs: vec!["#[allow(dead_code)]".into(), "#[doc = \"tokens\"]".into()],
        },
        3 => {
            // nonempty_unitlike_fieldset.kiki
            Grammar {
                family: "repo:nonempty_unitlike_fieldset".into(),
                start: 0,
                nts: vec![
                    Nt {
                        name: "Foo".into(),
                        kind: NtKind::Enum,
                        attrs: vec![],
                        variants: vec![
                            Variant::new("Empty", Shape::Tuple, vec![f(N(1), None)]),
                            Variant::new("Number", Shape::Named, vec![f(T(1), None)]),
                            Variant::new("Pair", Shape::Named, vec![f(N(2), Some("val"))]),
                        ],
                    },
                    Nt {
                        name: "Epsilon".into(),
                        kind: NtKind::Struct,
                        attrs: vec![],
                        variants: vec![Variant::new("", Shape::Empty, vec![])],
                    },
                    Nt {
                        name: "Pair".into(),
                        kind: NtKind::Enum,
                        attrs: vec![],
                        variants: vec![
                            Variant::new("StringPair", Shape::Tuple, vec![f(N(3), Some("x"))]),
                            Variant::new("NumberPair", Shape::Tuple, vec![f(N(4), Some("x"))]),
                        ],
                    },
                    Nt {
                        name: "StringPair".into(),
                        kind: NtKind::Struct,
                        attrs: vec![],
                        variants: vec![Variant::new("", Shape::Named, vec![f(T(0), None), f(T(0), None)])],
                    },
                    Nt {
                        name: "NumberPair".into(),
                        kind: NtKind::Struct,
                        attrs: vec![],
                        variants: vec![Variant::new("", Shape::Tuple, vec![f(T(1), None), f(T(1), None)])],
                    },
                ],
                terms: vec![tok("String"), tok("Number")],
                token_enum: "Token".into(),
                token_attrs: vec![],
            }
        }
        _ => {
            // json.kiki
            let nt = |name: &str, kind: NtKind, variants: Vec<Variant>| Nt {
                name: name.into(),
                kind,
                attrs: vec![],
                variants,
            };
            // nts: 0 Json 1 Obj 2 OptEntries 3 Entries 4 Entry 5 Expr 6 Arr 7 OptElements 8 Elements
            // terms: 0 String 1 Num 2 Bool 3 LCurly 4 RCurly 5 LSquare 6 RSquare 7 Colon 8 Comma
            Grammar {
                family: "repo:json".into(),
                start: 0,
                nts: vec![
                    nt(
                        "Json",
                        NtKind::Enum,
                        vec![
                            Variant::new("Obj", Shape::Tuple, vec![f(N(1), Some("x"))]),
                            Variant::new("Arr", Shape::Tuple, vec![f(N(6), Some("x"))]),
                        ],
                    ),
                    nt(
                        "Obj",
                        NtKind::Struct,
                        vec![Variant::new(
                            "",
                            Shape::Named,
                            vec![f(T(3), None), f(N(2), Some("entries")), f(T(4), None)],
                        )],
                    ),
                    nt(
                        "OptEntries",
                        NtKind::Enum,
                        vec![
                            Variant::new("None", Shape::Empty, vec![]),
                            Variant::new("Some", Shape::Tuple, vec![f(N(3), Some("x"))]),
                        ],
                    ),
                    nt(
                        "Entries",
                        NtKind::Enum,
                        vec![
                            Variant::new("One", Shape::Tuple, vec![f(N(4), Some("x"))]),
                            Variant::new(
                                "Many",
                                Shape::Tuple,
                                vec![f(N(3), Some("x")), f(T(8), None), f(N(4), Some("x"))],
                            ),
                        ],
                    ),
                    nt(
                        "Entry",
                        NtKind::Struct,
                        vec![Variant::new(
                            "",
                            Shape::Named,
                            vec![f(T(0), Some("key")), f(T(7), None), f(N(5), Some("val"))],
                        )],
                    ),
                    nt(
                        "Expr",
                        NtKind::Enum,
                        vec![
                            Variant::new("Obj", Shape::Tuple, vec![f(N(1), Some("x"))]),
                            Variant::new("Arr", Shape::Tuple, vec![f(N(6), Some("x"))]),
                            Variant::new("String", Shape::Tuple, vec![f(T(0), Some("x"))]),
                            Variant::new("Num", Shape::Tuple, vec![f(T(1), Some("x"))]),
                            Variant::new("Bool", Shape::Tuple, vec![f(T(2), Some("x"))]),
                        ],
                    ),
                    nt(
                        "Arr",
                        NtKind::Struct,
                        vec![Variant::new(
                            "",
                            Shape::Named,
                            vec![f(T(5), None), f(N(7), Some("elements")), f(T(6), None)],
                        )],
                    ),
                    nt(
                        "OptElements",
                        NtKind::Enum,
                        vec![
                            Variant::new("None", Shape::Empty, vec![]),
                            Variant::new("Some", Shape::Tuple, vec![f(N(8), Some("x"))]),
                        ],
                    ),
                    nt(
                        "Elements",
                        NtKind::Enum,
                        vec![
                            Variant::new("One", Shape::Tuple, vec![f(N(5), Some("x"))]),
                            Variant::new(
                                "Many",
                                Shape::Tuple,
                                vec![f(N(8), Some("x")), f(T(8), None), f(N(5), Some("x"))],
                            ),
                        ],
                    ),
                ],
                terms: vec![
                    tok("String"),
                    tok("Num"),
                    tok("Bool"),
                    tok("LCurly"),
                    tok("RCurly"),
                    tok("LSquare"),
                    tok("RSquare"),
                    tok("Colon"),
                    tok("Comma"),
                ],
                token_enum: "Token".into(),
                token_attrs: vec![],
            }
        }
    }
}

pub const N_REPO_EXAMPLES: usize = 5;
