//! Engine A workload: input *texts* for `generate` — valid grammars with many
//! map entries and internal-name collisions, grammars with several independent
//! LALR conflicts, texts with several simultaneous static violations, and
//! lexically / syntactically broken texts.

use crate::gen::{self, DecoOpts};
use crate::grammar::*;
use crate::rng::Rng;

#[derive(Clone, Debug)]
pub struct TextItem {
    pub text: String,
    pub category: &'static str,
    /// number of static violations planted (0 for valid / conflict / broken)
    pub planted: usize,
}

const PAYLOADS: &[&str] = &["()", "String", "crate::Tok", "std::vec::Vec<u8>", "Option<Box<i32>>", "a::b::C<d::E, F<G>>"];

fn valid_grammar(rng: &mut Rng, collide: usize) -> Grammar {
    let mut side = gen::side_stream(rng, 0x7e57_5);
    let mut cfg = gen::accepted_family(rng);
    if side.chance(1, 16) && cfg.rules.len() <= 40 {
        gen::pad_symbols(&mut cfg, &mut side);
    }
    let payload = *rng.pick(PAYLOADS);
    let mut g = gen::decorate(&cfg, rng, DecoOpts { collide_pct: collide, unreachable: true, payload, shuffle: true });
    if side.chance(1, 10) {
        gen::confusable_names(&mut g, &mut side);
    }
    g
}

fn violation_extra(g: &Grammar, k: usize, rng: &mut Rng) -> String {
    let some_nt = g.nts[rng.below(g.nts.len())].name.clone();
    let some_t = if g.terms.is_empty() { "Nope".to_string() } else { g.terms[rng.below(g.terms.len())].name.clone() };
    let other_t = if g.terms.is_empty() { "Nope".to_string() } else { g.terms[rng.below(g.terms.len())].name.clone() };
    match rng.below(27) {
        24 => format!("start {some_t}"),
        25 => format!(
            "enum ClashA{k} {{\n    X\n    Y\n    X\n}}\n\nenum ClashB{k} {{\n    P(${some_t})\n    Q(${some_t})\n    R\n    R\n}}"
        ),
        26 => format!("struct Reps{k} {{\n    a: Gone{k}\n    b: Gone{k}\n    c: $Lost{k}\n    d: $Lost{k}\n    e: Gone{k}\n}}"),
        21 => format!("struct lowa{k}\n\nenum lowb{k} {{\n    A\n}}\n\nstruct lowc{k}"),
        22 => format!("enum lowd{k} {{\n    A\n}}\n\nstruct lowe{k} {{\n    a: {some_nt}\n}}"),
        23 => format!("struct lowf{k}\n\nstruct Fine{k}\n\nstruct lowg{k}\n\nstruct {some_nt}"),
        // several violations of the SAME kind inside ONE scope: "which of them is reported" is
        // where an order dependence hides
        16 => format!("enum Dups{k} {{\n    Lit\n    Neg\n    Lit\n    Neg\n    Add\n    Add\n}}"),
        17 => format!(
            "enum Seqs{k} {{\n    A(${some_t})\n    B(${other_t} ${some_t})\n    C(_: ${some_t})\n    D(${other_t} _: ${some_t})\n    E\n    F\n}}"
        ),
        18 => format!(
            "struct Unds{k} {{\n    a: MissingA{k}\n    b: MissingB{k}\n    c: $AbsentA{k}\n    d: $AbsentB{k}\n}}"
        ),
        19 => format!("enum Lows{k} {{\n    first\n    second\n    Third {{ Upper: {some_nt} Other: {some_nt} }}\n}}"),
        20 => format!("struct {some_nt}\n\nstruct {some_nt}\n\nenum {some_t} {{ A }}\n\nstruct {}", g.token_enum),
        14 => format!("struct Cross{k} {{\n    a: {some_t}\n}}"),
        15 => format!("struct Crosst{k}(\n    ${some_nt}\n)"),
        0 => format!("struct {some_nt}"),
        1 => format!("enum {some_nt} {{\n    A\n}}"),
        2 => format!("enum {some_t} {{\n    A\n    B\n}}"),
        3 => format!("struct {}", g.token_enum),
        4 => format!("enum Dup{k} {{\n    A\n    B\n    A\n}}"),
        5 => format!("enum Seq{k} {{\n    A(${some_t})\n    B(_: ${some_t})\n}}"),
        6 => format!("struct Und{k} {{\n    a: Missing{k}\n    b: $Absent{k}\n}}"),
        7 => format!("struct Unt{k}(\n    $Absent{k}\n    Missing{k}\n)"),
        8 => format!("start {some_nt}"),
        9 => format!("start Undefined{k}"),
        10 => format!("terminal Extra{k} {{\n    $Zz{k}: ()\n}}"),
        11 => format!("struct lower{k}"),
        12 => format!("struct Cap{k} {{\n    Upper: {some_nt}\n}}"),
        _ => format!("enum Var{k} {{\n    lowervariant\n    Fine\n}}"),
    }
}

fn erroneous(rng: &mut Rng) -> TextItem {
    let mut g = valid_grammar(rng, 10);
    let n = rng.weighted(&[0, 3, 5, 3, 2]);
    let mut opts = RenderOpts { fancy: true, ..Default::default() };
    let mut planted = 0;
    for k in 0..n {
        match rng.below(10) {
            0 if !g.terms.is_empty() => {
                // duplicate terminal variant
                let t = g.terms[rng.below(g.terms.len())].clone();
                g.terms.push(t);
            }
            1 if !g.terms.is_empty() => {
                // terminal named like a nonterminal
                let name = g.nts[rng.below(g.nts.len())].name.clone();
                g.terms.push(Term { name, ty: "()".into() });
            }
            2 => {
                if rng.chance(1, 2) {
                    opts.omit_start = true;
                } else {
                    opts.omit_terminal = true;
                }
            }
            3 if !g.terms.is_empty() => {
                let i = rng.below(g.terms.len());
                g.terms[i].name = format!("lower_t{k}");
                if rng.chance(1, 2) {
                    // a second badly capitalised top-level name of another kind
                    if g.terms.len() > 1 && rng.chance(1, 2) {
                        let j = (i + 1) % g.terms.len();
                        g.terms[j].name = format!("lower_u{k}");
                    } else {
                        g.token_enum = format!("tokens{k}");
                    }
                }
            }
            _ => opts.extras.push(violation_extra(&g, k, rng)),
        }
        planted += 1;
    }
    let mut lay = rng.clone();
    TextItem { text: render_opts(&g, &mut lay, &opts), category: "erroneous", planted }
}

fn broken(rng: &mut Rng) -> TextItem {
    let g = valid_grammar(rng, 5);
    let mut lay = rng.clone();
    let mut text = render(&g, &mut lay);
    let n = rng.range(1, 2);
    for _ in 0..n {
        let mut pos = rng.below(text.len() + 1);
        while !text.is_char_boundary(pos) {
            pos -= 1;
        }
        match rng.below(15) {
            0 => text.insert(pos, *rng.pick(&['@', '!', '%', '^', '&', '*', '+', '=', ';', '.', '[', ']', '\'', '"', '\\', '`', '~', '?', '|'])),
            1 => text.insert_str(pos, "$ "),
            2 => text.insert_str(pos, " /x "),
            3 => text.insert_str(pos, " struct "),
            4 => text.truncate(pos),
            5 => text.insert_str(pos, "\n#[unclosed(\n"),
            6 => text.insert_str(pos, " é "),
            7 => {
                if let Some(i) = text.find('}') {
                    text.remove(i);
                }
            }
            8 => {
                // end of input in the middle of a token (`$`, `/`, `:`, `#`)
                let cut: Vec<usize> = text
                    .char_indices()
                    .filter(|(_, c)| matches!(c, '$' | '/' | ':' | '#'))
                    .map(|(i, c)| i + c.len_utf8())
                    .collect();
                if !cut.is_empty() {
                    let at = cut[rng.below(cut.len())];
                    text.truncate(at);
                } else {
                    text.push('$');
                }
            }
            11 => {
                // the text stops inside a comment or inside an attribute (no final newline)
                while text.ends_with('\n') || text.ends_with(' ') {
                    text.pop();
                }
                text.push_str(*rng.pick(&["\n// trailing comment without newline", " // é", "\n#[unterminated(attr", "\n#[", "\n#", " /"]));
            }
            10 => {
                // an outer attribute whose brackets balance in number but not in kind (a lexical
                // error reported from inside the attribute), or a well-formed one with nested
                // brackets of all three kinds, at the start of a line
                let attr = *rng.pick(&[
                    "#[derive(Clone, Debug])",
                    "#[foo(])",
                    "#[a{b)]",
                    "#[x[y}]",
                    "#[(])",
                    "#[cfg(any(a, b))] #[doc = \"[x]\"]",
                    "#[outer{inner[deep(1)]}]",
                    "#[derive(Clone)] #[derive(Debug])",
                ]);
                let starts: Vec<usize> =
                    std::iter::once(0).chain(text.match_indices('\n').map(|(i, _)| i + 1)).collect();
                let at = starts[rng.below(starts.len())];
                text.insert_str(at, &format!("{attr}\n"));
            }
            9 => {
                // `$` + reserved word: a lexical error reported just past the word;
                // at the very end of the text it is the only `Lex(_, None)` there is
                let w = *rng.pick(&["$struct", "$_", "$start", "$enum", "$terminal"]);
                if rng.chance(1, 2) {
                    text.push_str(w);
                } else {
                    text.insert_str(pos, &format!(" {w} "));
                }
            }
            _ => text.insert_str(pos, " :: , < > "),
        }
    }
    TextItem { text, category: "broken", planted: 0 }
}

/// A random sequence of Kiki lexemes (and near-lexemes): exercises the tokenizer's and the front-end
/// parser's error paths far more uniformly than mutations of valid files do.
fn lexeme_soup(rng: &mut Rng) -> TextItem {
    const WORDS: &[&str] = &[
        "start", "struct", "enum", "terminal", "_", "Expr", "Token", "item", "x", "Foo_bar", "a1", "A", "String",
        "std", "Vec", "Option", "crate",
    ];
    const PUNCT: &[&str] = &[":", "::", ",", "(", ")", "{", "}", "<", ">", ":::", "::::"];
    const ATTRS: &[&str] = &[
        "#[derive(Debug)]", "#[a(b[c{d}])]", "#[derive(Clone, Debug])", "#[foo(])", "#[x{y)]", "#[]", "#[", "#", "#[a]]",
        "#[doc = \"é\"]", "#[(])", "#[a(b)] #[c]",
    ];
    const ODD: &[&str] = &["$", "$$", "$struct", "$_", "$1", "/", "/ /", "@", "é", "\u{a0}", "\t", "\r\n", "1abc", "-", ";", "'", "\"", "$é"];
    let n = rng.range(3, 60);
    let mut text = String::new();
    for _ in 0..n {
        match rng.weighted(&[30, 12, 25, 6, 5, 8, 6]) {
            0 => text.push_str(*rng.pick(WORDS)),
            1 => {
                text.push('$');
                text.push_str(*rng.pick(WORDS));
            }
            2 => text.push_str(*rng.pick(PUNCT)),
            3 => {
                text.push_str(*rng.pick(ATTRS));
                if rng.chance(2, 3) {
                    text.push('\n');
                }
            }
            4 => text.push_str(*rng.pick(ODD)),
            5 => {
                text.push_str("// comment ");
                text.push_str(*rng.pick(ODD));
                if rng.chance(4, 5) {
                    text.push('\n');
                }
            }
            _ => text.push('\n'),
        }
        text.push_str(match rng.below(6) {
            0 => "",
            1 => "\n",
            _ => " ",
        });
    }
    TextItem { text, category: "lexeme-soup", planted: 0 }
}

/// One generated input text, a pure function of the PRNG state.
pub fn ambient_text(rng: &mut Rng) -> TextItem {
    match rng.weighted(&[20, 12, 16, 34, 10, 8, 5, 6, 7]) {
        8 => lexeme_soup(rng),
        7 => {
            // many independent conflicts in a machine of hundreds of states (which conflict is
            // reported must not depend on anything but the text)
            let cfg = gen::fam_conflict_n(rng, 12, 40);
            let g = gen::decorate(&cfg, rng, DecoOpts { collide_pct: 3, unreachable: false, payload: "()", shuffle: true });
            let mut lay = rng.clone();
            TextItem { text: render(&g, &mut lay), category: "conflict-big", planted: 0 }
        }
        6 => {
            // identical right-hand sides told apart by context: LALR(1), LR(1)-only or neither
            let cfg = if rng.chance(1, 2) { gen::fam_lr1ish(rng) } else { gen::fam_lr1ish_deep(rng) };
            let g = gen::decorate(&cfg, rng, DecoOpts { collide_pct: 5, unreachable: false, payload: "()", shuffle: true });
            let mut lay = rng.clone();
            TextItem { text: render(&g, &mut lay), category: "lr1ish", planted: 0 }
        }
        0 => {
            let g = valid_grammar(rng, 30);
            let mut lay = rng.clone();
            TextItem { text: render(&g, &mut lay), category: "valid", planted: 0 }
        }
        1 => {
            let cfg = gen::fam_wide(rng);
            let g = gen::decorate(&cfg, rng, DecoOpts { collide_pct: 20, unreachable: true, payload: "String", shuffle: true });
            let mut lay = rng.clone();
            TextItem { text: render(&g, &mut lay), category: "wide", planted: 0 }
        }
        2 => {
            let cfg = gen::fam_conflict(rng);
            let g = gen::decorate(&cfg, rng, DecoOpts { collide_pct: 10, unreachable: false, payload: "()", shuffle: true });
            let mut lay = rng.clone();
            TextItem { text: render(&g, &mut lay), category: "conflict", planted: 0 }
        }
        3 => erroneous(rng),
        4 => broken(rng),
        _ => {
            // conflicting grammar with static violations on top
            let cfg = gen::fam_conflict(rng);
            let g = gen::decorate(&cfg, rng, DecoOpts { collide_pct: 10, unreachable: false, payload: "()", shuffle: true });
            let mut opts = RenderOpts { fancy: true, ..Default::default() };
            let n = rng.range(1, 3);
            for k in 0..n {
                opts.extras.push(violation_extra(&g, k, rng));
            }
            let mut lay = rng.clone();
            TextItem { text: render_opts(&g, &mut lay, &opts), category: "conflict+erroneous", planted: n }
        }
    }
}
