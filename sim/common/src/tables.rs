//! Interpreter of the tables *as emitted* by `kiki::generate` (read back from the emitted
//! Rust text), driving them exactly like the emitted driver does (one token of lookahead via
//! peek, shift = take the peeked token, reduce = pop |rhs| states and goto, error = hand back
//! the peeked token or `None` at end of input).
//!
//! It is a STUB of the emitted driver, used in two ways and never as a judge:
//!   * shadowing the real compiled parser on every run of every compiled grammar
//!     (any disagreement is counted and disables the next use);
//!   * tables-only exploration of many more grammars than `rustc` could compile in the same
//!     time. Whatever it finds is only a *candidate*: it is reported as a violation only after
//!     the real, compiled parser has reproduced it.

use crate::grammar::Grammar;
use crate::streamrt::{Held, Outcome, ParseFn, SimStream, Tok};
use std::sync::Arc;

#[derive(Clone, Copy, Debug, PartialEq, Eq)]
enum Act {
    Shift(usize),
    Reduce(usize),
    Accept,
    Err,
}

pub struct TableParser {
    n_terms: usize,
    start: usize,
    action: Vec<Vec<Act>>,
    goto: Vec<Vec<Option<usize>>>,
    rule_len: Vec<usize>,
    rule_lhs: Vec<usize>,
}

fn trailing_number(s: &str, marker: &str) -> Option<usize> {
    let i = s.rfind(marker)?;
    let digits: String = s[i + marker.len()..].chars().take_while(|c| c.is_ascii_digit()).collect();
    digits.parse().ok()
}

impl TableParser {
    pub fn states(&self) -> usize {
        self.action.len()
    }

    pub fn from_emitted(src: &str, g: &Grammar) -> Result<TableParser, String> {
        let lines: Vec<&str> = src.lines().collect();
        let mut start = None;
        for l in &lines {
            if l.contains("let mut states = vec![") {
                start = trailing_number(l, "::S");
            }
        }
        let start = start.ok_or("start state not found")?;
        // the two `static NAME: [[T; C]; R] = [` tables, in order: action, goto
        let mut tables: Vec<(usize, usize, usize)> = vec![]; // (line index, cols, rows)
        for (i, l) in lines.iter().enumerate() {
            if l.starts_with("static ") && l.contains(": [[") && l.trim_end().ends_with("= [") {
                let dims: Vec<usize> = l
                    .split(';')
                    .skip(1)
                    .filter_map(|p| p.trim().split(']').next().and_then(|d| d.trim().parse().ok()))
                    .collect();
                if dims.len() != 2 {
                    return Err(format!("cannot read table dimensions from `{l}`"));
                }
                tables.push((i, dims[0], dims[1]));
            }
        }
        if tables.len() != 2 {
            return Err(format!("expected 2 static tables, found {}", tables.len()));
        }
        let read = |t: (usize, usize, usize)| -> Result<Vec<Vec<String>>, String> {
            let (at, cols, rows) = t;
            let mut out: Vec<Vec<String>> = vec![];
            let mut cur: Option<Vec<String>> = None;
            for l in &lines[at + 1..] {
                let t = l.trim();
                if t == "];" {
                    break;
                }
                if t == "[" {
                    cur = Some(vec![]);
                } else if t == "]," {
                    out.push(cur.take().ok_or("row end without start")?);
                } else if let Some(c) = cur.as_mut() {
                    c.push(t.trim_end_matches(',').to_string());
                } else if !t.is_empty() {
                    return Err(format!("unexpected line in table: `{t}`"));
                }
            }
            if out.len() != rows || out.iter().any(|r| r.len() != cols) {
                return Err(format!("table shape mismatch: {} rows (want {rows}), cols want {cols}", out.len()));
            }
            Ok(out)
        };
        let a = read(tables[0])?;
        let gt = read(tables[1])?;
        let n_terms = g.terms.len();
        if tables[0].1 != n_terms + 1 {
            return Err("action table width != terminals + 1".into());
        }
        if tables[1].1 != g.nts.len() {
            return Err("goto table width != nonterminals".into());
        }
        let mut action = vec![];
        for row in &a {
            let mut r = vec![];
            for cell in row {
                let act = if cell.contains("::Shift(") {
                    Act::Shift(trailing_number(cell, "::S").ok_or("shift target")?)
                } else if cell.contains("::Reduce(") {
                    Act::Reduce(trailing_number(cell, "::R").ok_or("reduce rule")?)
                } else if cell.ends_with("::Accept") {
                    Act::Accept
                } else if cell.ends_with("::Err") {
                    Act::Err
                } else {
                    return Err(format!("unknown action cell `{cell}`"));
                };
                r.push(act);
            }
            action.push(r);
        }
        let mut goto = vec![];
        for row in &gt {
            let mut r = vec![];
            for cell in row {
                if cell == "None" {
                    r.push(None);
                } else if cell.starts_with("Some(") {
                    r.push(Some(trailing_number(cell, "::S").ok_or("goto target")?));
                } else {
                    return Err(format!("unknown goto cell `{cell}`"));
                }
            }
            goto.push(r);
        }
        let rules = g.rules();
        Ok(TableParser {
            n_terms,
            start,
            action,
            goto,
            rule_len: rules.iter().map(|r| r.rhs.len()).collect(),
            rule_lhs: rules.iter().map(|r| r.lhs).collect(),
        })
    }

    /// Mirrors the emitted driver on the simulated producer.
    pub fn run(&self, stream: &mut SimStream) -> Outcome {
        let mut states = vec![self.start];
        let mut held: Vec<Tok> = vec![];
        // None = nothing peeked; Some(None) = end of input peeked; Some(Some(..)) = a token peeked
        let mut peeked: Option<Option<(usize, Tok)>> = None;
        // tables with conflicts resolved arbitrarily can reduce for ever without consuming
        // anything; the compiled parser is stopped by the per-run watchdog, the interpreter by
        // this budget (reported like any other failure to return: a panic of the run)
        let mut reduces_since_shift = 0usize;
        loop {
            if peeked.is_none() {
                peeked = Some(stream.pull());
            }
            let kind = match peeked.as_ref().unwrap() {
                Some((k, _)) => *k,
                None => self.n_terms,
            };
            let top = *states.last().unwrap();
            match self.action[top][kind] {
                Act::Shift(s) => {
                    reduces_since_shift = 0;
                    states.push(s);
                    if let Some(Some((_, t))) = peeked.take() {
                        held.push(t);
                    }
                }
                Act::Reduce(r) => {
                    reduces_since_shift += 1;
                    if reduces_since_shift > 100_000 {
                        panic!("table interpreter: 100000 reductions without consuming a token (the tables loop)");
                    }
                    let len = self.rule_len[r];
                    if len >= states.len() {
                        panic!("table interpreter: reduction pops more states than the stack holds");
                    }
                    states.truncate(states.len() - len);
                    let top = *states.last().unwrap();
                    match self.goto[top][self.rule_lhs[r]] {
                        Some(s) => states.push(s),
                        None => return Self::err(peeked.take().unwrap()),
                    }
                }
                Act::Accept => {
                    let b: Box<dyn Held> = Box::new(held);
                    return Outcome::Ok(b);
                }
                Act::Err => return Self::err(peeked.take().unwrap()),
            }
        }
    }

    fn err(p: Option<(usize, Tok)>) -> Outcome {
        match p {
            Some((kind, t)) => {
                let id = t.id;
                Outcome::ErrSome { kind, id, tok: Box::new(t) }
            }
            None => Outcome::ErrNone,
        }
    }

    pub fn into_parse_fn(self) -> ParseFn {
        let me = Arc::new(self);
        Arc::new(move |s: &mut SimStream| me.run(s))
    }
}
