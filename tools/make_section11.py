#!/usr/bin/env python3
"""Prints the tables of DESIGN.md section 11 from /verif/sensitivity.json and seeded/*/meta.json."""
import json
import os

VERIF = "/verif"

# how each seeded change fared against the version of the checks that existed when it arrived
# (recorded by hand at the time; the final state comes from sensitivity.json)
FIRST = {
    "c14_a1_first_cache_thread_local": "caught",
    "c14_a2_unused_terminals_hash_order": "caught",
    "c14_b1_first_sets_dfs_memo": "MISSED (no grammar with indirect left recursion)",
    "c14_b2_find_clash_hash_order": "MISSED (never two different duplicated names inside one enum)",
    "c14_d1_first_sets_dfs_visited": "MISSED (no grammar with indirect left recursion)",
    "c14_d2_conflict_min_by_state": "caught",
    "c03_b1_queue_dedup_selfloop": "MISSED (fixed symbol names: `Close` never sorted before `Open`)",
    "c03_b2_cores_equal_fastpath": "MISSED (no statements sharing long prefixes; 64 grammars only)",
    "c03_c1_pending_flag_selfloop": "MISSED (no nesting whose opener is a nonterminal)",
    "c03_c2_shift_skips_existing_reduce": "caught",
    "c03_d1_enqueued_flag_selfloop": "MISSED (fixed symbol names)",
    "c03_d2_first_fixpoint_by_size": "MISSED (no nullable chain declared top-down)",
    "c03_a1_add_all_skips_epsilon_change": "caught (arrived after the strengthening)",
    "c03_a2_merge_skips_self_requeue": "caught (arrived after the strengthening)",
    "c14_c1_unique_suffix_global_counter": "caught (arrived after the strengthening)",
    "c14_c2_conflicts_map_min_by_key": "caught (arrived after the strengthening)",
    "r2_c03_a2_empty_first_treated_as_nullable": "MISSED (unproductive nonterminals were all right-recursive: FIRST never empty)",
    "r2_c03_b1_lookahead_inherited_on_empty_first": "MISSED (same)",
    "r3_c14_b1_first_fit_merge_hash_discovery": "MISSED (no LR(1)-but-not-LALR(1) grammar with three core-equal states of non-transitive compatibility)",
    "r3_c03_a2_empty_enum_first_default_nullable": "MISSED (rule-less nonterminals were never referenced, because the pinned tree panics on them)",
    "r3_c03_b1_merge_unless_rr_conflict_stale_transition": "MISSED (no LR(1)-only grammar whose contexts have different depths / recursive wrappers; the change also makes generate hang on ~5 % of the workload, which at that time hung the check itself)",
    "r3_c03_c1_conflict_aware_merge_stale_transition": "MISSED (same mechanism as r3_c03_b1, written independently)",
    "r4_c14_b1_backtrace_in_internal_error": "MISSED (std caches `RUST_BACKTRACE` at its first use in the process; every worker's first call was a canonical, clean one, so nothing ever differed in-process or between workers)",
    "r4_c14_b2_capitalization_check_over_hashmap": "MISSED (never two badly capitalised *top-level* names in one text)",
    "r6_c03_b1_first_of_suffix_thread_local_cache": "MISSED by the C03 check, which judged only the canonical emission (the C14 check reported it: it is the round-1 thread-local FIRST cache again, submitted as a C03 change because the parser emitted after another grammar on the same thread misreports)",
    "r7_c14_a1_parallel_chunks_by_cpu_count": "MISSED by the quick tier (the thorough tier found it): chunk boundaries that move with the CPU count change the reported conflict only when a boundary falls between the two items of the first conflict; the CPU seam existed but offered six values and too few big conflicting grammars",
    "r7_c14_b1_comment_scan_alignment_dependent": "MISSED (every text was handed to generate from an identically aligned buffer, and comments were ASCII)",
    "r6_c03_a1_closure_dedup_key_aliases_eof": "MISSED (an integer key that aliases `(rule, dot, Eof)` with `(rule, dot+1, first declared terminal)`: the declaration order of terminals was never shuffled, and the repeated nonterminal of the 'same rule at two dot positions' pattern was never followed by a token in one alternative and by nothing in the other)",
    "r6_c14_a1_heap_address_in_lex_error": "MISSED (no text with an outer attribute whose brackets balance in number but not in kind)",
    "r6_c14_b1_heap_address_in_lex_error_again": "MISSED (the same mechanism, written independently by a second agent)",
    "r8_c14_a1_unreachable_warning_to_stderr": "MISSED (no fault on the process's stdout/stderr: a failing write to fd 2 was never simulated)",
    "r8_c03_a1_first_bitset_index_mod_64": "MISSED (no grammar with more than 64 terminals; the widest had 36)",
    "r8_c03_b1_natural_order_leading_zero_ties": "MISSED (no two names differing only in leading zeros of a digit run)",
    "r9_c14_a1_last_result_memo_layout_normalised_key": "MISSED (sibling texts always differed in a token; no two texts in the pool were equal up to layout)",
    "r9_c03_b1_action_cell_cache_key_8bit": "caught, by the `stretch_rules` pass added while the round ran (before it no grammar had 100 states, let alone 256)",
    "r4_c03_a2_memoised_item_closures_partial_on_cycles": "MISSED (indirect left recursion only through 2-3 nonterminals, and never a cycle member used outside the cycle with the same follower terminal as inside)",
}


def short(s, n=150):
    s = " ".join((s or "").split())
    return s if len(s) <= n else s[: n - 1] + "…"


def main():
    sens = json.load(open(os.path.join(VERIF, "sensitivity.json")))
    rows = {r["id"]: r for r in sens["rows"]}
    rows2 = {}
    p2 = os.path.join(VERIF, "sensitivity_seed2.json")
    if os.path.exists(p2):
        rows2 = {r["id"]: r for r in json.load(open(p2))["rows"]}
    print("| planted change (mine) | property | expected | quick check | what it reports | other property's quick check | quick check, VERIF_SEED=2 |")
    print("|---|---|---|---|---|---|---|")
    for rid, r in rows.items():
        if r["origin"].startswith("planted"):
            res = r["result"]
            cl = ", ".join(res["classes"]) or ("uncontrolled-source (cross-process)" if res["exit"] == 1 else "–")
            s2 = ("exit %d" % rows2[rid]["result"]["exit"]) if rid in rows2 else "–"
            print("| `%s` | %s | %s | exit %d | %s | exit %d | %s |" % (
                rid, r["property"], r["expect"], res["exit"], cl, r["other_property_quick"]["exit"], s2))
    print()
    print("| seeded change (independent sub-agent) | property | needs, in the agent's words | when it arrived | now (quick) | reported as | now, VERIF_SEED=2 |")
    print("|---|---|---|---|---|---|---|")
    for d in sorted(os.listdir(os.path.join(VERIF, "seeded"))):
        m = json.load(open(os.path.join(VERIF, "seeded", d, "meta.json")))
        r = rows.get(d)
        now = "exit %d" % r["result"]["exit"] if r else ("caught" if m.get("detected") else "missed")
        classes = ", ".join(r["result"]["classes"]) if r else ""
        if r and not classes and r["result"]["exit"] == 1:
            classes = "first-call-in-process-differs"
        s2 = ("exit %d" % rows2[d]["result"]["exit"]) if d in rows2 else "–"
        print("| `%s` | %s | %s | %s | %s | %s | %s |" % (d, m["property"], short(m.get("needs_to_manifest")), FIRST.get(d, "caught"), now, classes, s2))


if __name__ == "__main__":
    main()
