#!/bin/bash
# Runs the repository's baseline test suite (same command as BASELINE.json's fallback) in the given tree.
# usage: baseline.sh [repo-dir]   (default /repo)
D="${1:-/repo}"
cd "$D" && CARGO_NET_OFFLINE=true cargo test --workspace --no-fail-fast --offline 2>&1 | grep -E "^test result|FAILED|failed|panicked" | head -40
