#!/bin/bash
# usage: with_patch.sh <patch.diff> <command...>
# Applies the patch to /repo, runs the command from /verif, and always restores /repo.
set -u
PATCH="$(realpath "$1")"; shift
if ! git -C /repo diff --quiet || ! git -C /repo diff --cached --quiet; then
  echo "with_patch: /repo has local modifications; refusing" >&2; exit 2
fi
git -C /repo apply "$PATCH" || { echo "with_patch: patch does not apply" >&2; exit 2; }
restore() { git -C /repo checkout -- . ; git -C /repo clean -fdq -- kiki kiki_e2e_test 2>/dev/null; }
trap restore EXIT
cd /verif && "$@"
