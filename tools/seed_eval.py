#!/usr/bin/env python3
"""Verify and ingest a seeded change produced by an independent sub-agent.

usage: seed_eval.py <scratch-worktree> <N> <seeded-id> <property> [--tier quick|thorough] [--skip-verify]

 1. copies <worktree>/OUT/<N>/{patch.diff,demo,meta.json} to /verif/seeded/<seeded-id>/
 2. in the scratch worktree (clean HEAD): patch applies; demo exits 0 unpatched; with the patch the
    118 baseline tests pass and the demo exits non-zero; restores the worktree
 3. applies the patch to /repo, runs ./check <property> <tier> (and the other claimed property's quick
    check as a false-alarm control), restores /repo
 4. writes /verif/seeded/<seeded-id>/meta.json
"""
import json
import os
import re
import shutil
import subprocess
import sys
import time

VERIF = "/verif"


def sh(cmd, cwd=None, timeout=3600, env=None):
    e = dict(os.environ)
    e["CARGO_NET_OFFLINE"] = "true"
    if env:
        e.update(env)
    p = subprocess.run(cmd, shell=isinstance(cmd, str), cwd=cwd, stdout=subprocess.PIPE, stderr=subprocess.STDOUT,
                       text=True, timeout=timeout, env=e)
    return p.returncode, p.stdout


def recheck(sid, tier):
    """Re-run only my checks for an already ingested seeded change (the scratch worktree is gone)."""
    dst = os.path.join(VERIF, "seeded", sid)
    meta = json.load(open(os.path.join(dst, "meta.json")))
    prop = meta["property"]
    patch = os.path.join(dst, "patch.diff")
    other = "C14" if prop == "C03" else "C03"
    results = {}
    for pid, t in ((prop, tier), (other, "quick")):
        t0 = time.time()
        rc, out = sh([os.path.join(VERIF, "tools", "with_patch.sh"), patch, "./check", pid, t], cwd=VERIF, timeout=7200)
        lines = [l for l in out.splitlines() if l.startswith("VIOLATION") or l.startswith("  ") or l.startswith("NOTE") or pid + " " in l or "HARNESS" in l]
        results["%s %s" % (pid, t)] = {"exit": rc, "wall_s": round(time.time() - t0, 1), "output": lines[:8]}
        if pid == prop and rc == 1:
            m = re.search(r"VIOLATION property=\S+ replay=(\S+)", out)
            if m and os.path.exists(m.group(1)):
                shutil.copyfile(m.group(1), os.path.join(dst, "sample_replay.json"))
    rc, out = sh("git status --porcelain", cwd="/repo")
    meta["my_verification"]["repo_clean_after"] = out.strip() == ""
    meta["my_checks"] = results
    meta["detected"] = results.get("%s %s" % (prop, tier), {}).get("exit") == 1
    meta["false_alarm_on_other_property"] = results.get("%s quick" % other, {}).get("exit") == 1
    json.dump(meta, open(os.path.join(dst, "meta.json"), "w"), indent=1, ensure_ascii=False)
    print(sid, "detected:", meta["detected"], "other-property alarm:", meta["false_alarm_on_other_property"],
          [(k, v["exit"], v["wall_s"]) for k, v in results.items()])


def main():
    a = sys.argv[1:]
    if a[0] == "--recheck":
        tier = a[a.index("--tier") + 1] if "--tier" in a else "quick"
        for sid in a[1:]:
            if sid.startswith("--") or sid in ("quick", "thorough"):
                continue
            recheck(sid, tier)
        return
    wt, n, sid, prop = a[0], a[1], a[2], a[3]
    tier = "quick"
    if "--tier" in a:
        tier = a[a.index("--tier") + 1]
    skip_verify = "--skip-verify" in a
    src = os.path.join(wt, "OUT", n)
    dst = os.path.join(VERIF, "seeded", sid)
    os.makedirs(dst, exist_ok=True)
    shutil.copyfile(os.path.join(src, "patch.diff"), os.path.join(dst, "patch.diff"))
    if os.path.isdir(os.path.join(dst, "demo")):
        shutil.rmtree(os.path.join(dst, "demo"))
    shutil.copytree(os.path.join(src, "demo"), os.path.join(dst, "demo"),
                    ignore=shutil.ignore_patterns("target", "work", ".work", "*.lock.bak", "out"))
    agent_meta = {}
    try:
        agent_meta = json.load(open(os.path.join(src, "meta.json")))
    except Exception as e:
        agent_meta = {"error": "agent meta.json unreadable: %s" % e}
    patch = os.path.join(dst, "patch.diff")
    ran = {}
    if not skip_verify:
        rc, out = sh("git status --porcelain --untracked-files=no", cwd=wt)
        if out.strip():
            sh("git checkout -- .", cwd=wt)
        rc, out = sh(["git", "apply", "--check", patch], cwd=wt)
        ran["git_apply_check"] = rc == 0
        demo = os.path.join(src, "demo", "run.sh")
        t0 = time.time()
        rc, out = sh(["bash", demo, wt], cwd=os.path.join(src, "demo"), timeout=3000)
        ran["demo_exit_unpatched"] = rc
        ran["demo_tail_unpatched"] = out[-600:]
        sh(["git", "apply", patch], cwd=wt)
        rc, out = sh("cargo test --workspace --no-fail-fast --offline 2>&1", cwd=wt, timeout=3000)
        passed = sum(int(x) for x in re.findall(r"test result: \w+\. (\d+) passed", out))
        failed = sum(int(x) for x in re.findall(r"test result: .*?(\d+) failed", out))
        ran["baseline_tests_with_patch"] = {"exit": rc, "passed": passed, "failed": failed}
        # the build may have regenerated tracked example parsers; only the hand edits count
        rc, out = sh(["bash", demo, wt], cwd=os.path.join(src, "demo"), timeout=3000)
        ran["demo_exit_patched"] = rc
        ran["demo_tail_patched"] = out[-900:]
        sh("git checkout -- . && git clean -fdq -- kiki kiki_e2e_test", cwd=wt)
        ran["verify_wall_s"] = round(time.time() - t0, 1)
    # my checks against /repo with the patch applied
    other = "C14" if prop == "C03" else "C03"
    results = {}
    for pid, t in ((prop, tier), (other, "quick")):
        t0 = time.time()
        rc, out = sh([os.path.join(VERIF, "tools", "with_patch.sh"), patch, "./check", pid, t], cwd=VERIF, timeout=7200)
        lines = [l for l in out.splitlines() if l.startswith("VIOLATION") or l.startswith("  ") or l.startswith("NOTE") or pid + " " in l or "HARNESS" in l]
        results["%s %s" % (pid, t)] = {"exit": rc, "wall_s": round(time.time() - t0, 1), "output": lines[:12]}
        if pid == prop and rc == 1:
            # keep one replay file as a sample of what the check reports
            m = re.search(r"VIOLATION property=\S+ replay=(\S+)", out)
            if m and os.path.exists(m.group(1)):
                shutil.copyfile(m.group(1), os.path.join(dst, "sample_replay.json"))
    rc, out = sh("git status --porcelain", cwd="/repo")
    ran["repo_clean_after"] = out.strip() == ""
    meta = {
        "id": sid,
        "property": prop,
        "source": "independent sub-agent, given only the property text and its own scratch worktree",
        "summary": agent_meta.get("summary"),
        "needs_to_manifest": agent_meta.get("needs_to_manifest"),
        "files_touched": agent_meta.get("files_touched"),
        "agent_how_verified": agent_meta.get("how_verified"),
        "my_verification": ran,
        "my_checks": results,
        "detected": results.get("%s %s" % (prop, tier), {}).get("exit") == 1,
        "false_alarm_on_other_property": results.get("%s quick" % other, {}).get("exit") == 1,
    }
    json.dump(meta, open(os.path.join(dst, "meta.json"), "w"), indent=1, ensure_ascii=False)
    print(json.dumps({k: meta[k] for k in ("id", "property", "detected", "false_alarm_on_other_property", "my_verification", "my_checks")}, indent=1)[:5000])


if __name__ == "__main__":
    main()
