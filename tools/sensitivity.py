#!/usr/bin/env python3
"""Runs every planted and seeded change against the quick check of its property (and the other
property's quick check as a control) and writes /verif/sensitivity.json and a markdown table.

usage: sensitivity.py [--only substring] [--tier quick]
Planted diffs: /verif/planted/<prop>_*.diff (expected: detected) and silent_<prop>_*.diff
(expected: silent). Seeded: /verif/seeded/<id>/patch.diff (expected: detected), property from meta.json.
"""
import glob
import json
import os
import re
import subprocess
import sys
import time

VERIF = "/verif"


def run_check(patch, pid, tier):
    t0 = time.time()
    p = subprocess.run([os.path.join(VERIF, "tools", "with_patch.sh"), patch, "./check", pid, tier], cwd=VERIF,
                       stdout=subprocess.PIPE, stderr=subprocess.STDOUT, text=True, timeout=7200)
    out = p.stdout
    classes = sorted(set(re.findall(r"^  (O\d-[a-z-]+|panic|hang) on", out, re.M)))
    kinds = sorted(set(re.findall(r"canonical outcome: ([a-z-]+) at", out)))
    nviol = len(re.findall(r"^VIOLATION", out, re.M))
    repro = len(re.findall(r"reproduced=True", out))
    return {"exit": p.returncode, "wall_s": round(time.time() - t0, 1), "violations_reported": nviol,
            "replays_reproduced": repro, "classes": classes or kinds}


def main():
    a = sys.argv[1:]
    only = a[a.index("--only") + 1] if "--only" in a else None
    tier = a[a.index("--tier") + 1] if "--tier" in a else "quick"
    seed = a[a.index("--seed") + 1] if "--seed" in a else None
    no_control = "--no-control" in a
    if seed:
        os.environ["VERIF_SEED"] = seed
    items = []
    for f in sorted(glob.glob(os.path.join(VERIF, "planted", "*.diff"))):
        name = os.path.basename(f)[:-5]
        silent = name.startswith("silent_")
        prop = "C14" if "c14" in name else "C03"
        items.append({"id": name, "origin": "planted (mine)", "property": prop, "patch": f, "expect": "silent" if silent else "detected"})
    for d in sorted(glob.glob(os.path.join(VERIF, "seeded", "*"))):
        m = json.load(open(os.path.join(d, "meta.json")))
        items.append({"id": os.path.basename(d), "origin": "seeded (independent sub-agent)", "property": m["property"],
                      "patch": os.path.join(d, "patch.diff"), "expect": "detected",
                      "needs": m.get("needs_to_manifest")})
    rows = []
    outp0 = os.path.join(VERIF, "sensitivity.json" if not seed or seed == "1" else "sensitivity_seed%s.json" % seed)
    old_controls = {}
    if no_control and os.path.exists(outp0):
        # a re-run without the control keeps the control result measured before
        old_controls = {r["id"]: r["other_property_quick"] for r in json.load(open(outp0))["rows"]}
    for it in items:
        if only and not any(o in it["id"] for o in only.split(",")):
            continue
        other = "C14" if it["property"] == "C03" else "C03"
        r = run_check(it["patch"], it["property"], tier)
        c = run_check(it["patch"], other, "quick") if not no_control else old_controls.get(
            it["id"], {"exit": -1, "wall_s": 0, "violations_reported": 0, "replays_reproduced": 0, "classes": []})
        ok = (r["exit"] == 1) == (it["expect"] == "detected") and r["exit"] in (0, 1)
        rows.append({**it, "result": r, "other_property_quick": c, "as_expected": ok})
        print("%-48s %s %-8s exit=%d viol=%d repro=%d %s | %s quick exit=%d  %s" % (
            it["id"], it["property"], it["expect"], r["exit"], r["violations_reported"], r["replays_reproduced"],
            ",".join(r["classes"]), other, c["exit"], "OK" if ok else "UNEXPECTED"), flush=True)
    outp = os.path.join(VERIF, "sensitivity.json" if not seed or seed == "1" else "sensitivity_seed%s.json" % seed)
    if only and os.path.exists(outp):
        # partial run: merge into the existing table
        old = json.load(open(outp))["rows"]
        new_ids = {r["id"] for r in rows}
        merged = [r for r in old if r["id"] not in new_ids] + rows
        order = {it["id"]: i for i, it in enumerate(items)}
        rows = sorted(merged, key=lambda r: order.get(r["id"], 1e9))
    json.dump({"tier": tier, "rows": rows}, open(outp, "w"), indent=1, ensure_ascii=False)
    st = subprocess.run("git -C /repo status --porcelain", shell=True, stdout=subprocess.PIPE, text=True).stdout.strip()
    print("repo clean after:", st == "")


if __name__ == "__main__":
    main()
