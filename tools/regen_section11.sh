#!/bin/sh
# Rebuilds section 11 of DESIGN.md from tools/section11_head.md and the sweep results.
cd /verif || exit 2
python3 - <<'PY'
import subprocess
tables = subprocess.run(["python3", "tools/make_section11.py"], stdout=subprocess.PIPE, text=True, check=True).stdout
head = open("tools/section11_head.md", encoding="utf-8").read()
d = open("DESIGN.md", encoding="utf-8").read()
marker = "## 11. Which checks catch which changes"
i = d.index(marker)
body = head.replace("RESULTS_TABLES", tables.rstrip("\n"))
open("DESIGN.md", "w", encoding="utf-8").write(d[:i] + marker + "\n\n" + body)
PY
